/* C16 - tree builder (and, later, block signer) yield a valid inclusion proof for every leaf
 * (DESIGN.md section "### C16").
 *
 * This file holds the TREE BUILDER part. The block-signer part needs the simulated aggregator and is
 * added separately (see part_blocksigner() at the end: placeholder, not called).
 *
 * Technique: exhaustive enumeration of stated finite spaces of leaf sequences on the real compiled
 * code (ASan + UBSan), compared with an independent reference:
 *   (O1) chain oracle   - every accepted leaf's extracted aggregation chain, recomputed with the
 *                         independent chain formula (ref_chain_aggregate: step = H(left||right||level),
 *                         level = previous + correction + 1) from the leaf's own bytes and level, gives
 *                         exactly the builder's root hash and root level;
 *   (O2) canonical root - the builder's root equals the canonical left-to-right merge of the accepted
 *                         leaves (reference forest below);
 *   (O3) refusal        - a leaf that would push the root level beyond the configured maximum, or whose
 *                         level arithmetic leaves 0..255, is refused with an error; a leaf that does
 *                         neither is accepted; after refusals all previously accepted leaves still verify
 *                         (O1) against the root produced by close;
 *   (O4) memory         - sanitizers silent; SDK live allocations back at the baseline after freeing
 *                         everything (reported with signature "leak", separately from corruption).
 */
#include "ku.h"
#include "ref/ref.h"
#include <ksi/tree_builder.h>
#include <unistd.h>
#include <sys/wait.h>
#include <errno.h>

static KSI_CTX *ctx;

/* ======================================================================================
 * Reference model: canonical forest merge. Uses ref.h only (no libksi).
 *
 * Derivation of the canonical shape (property statement + tree_builder.h documentation):
 *  - statement: "the root equals the canonical left-to-right merge of the leaves into a forest of
 *    perfect trees"; anchors: "binary-counter forest: slot i holds at most one subtree root produced
 *    by i carries"; tree_builder.h: "Stack of the root nodes of complete binary trees", close:
 *    "finalizes the building of the tree".
 *  - Hence: leaves are appended left to right; the forest is a list of perfect trees (perfect by
 *    LEAF COUNT 2^i - a binary counter - not by level; leaves may carry arbitrary levels); whenever
 *    the two rightmost trees hold the same number of leaves they are merged (left = older tree,
 *    right = newer tree), repeatedly (the "carry"). At close the remaining forest - leaf counts
 *    strictly decreasing from left to right - is folded from the right: the two rightmost trees
 *    are merged (left = the larger/older one) until one tree remains.
 *  - every merge: parent level = max(level left, level right) + 1, parent hash =
 *    H(bytes(left) || bytes(right) || level byte), where bytes(node) = imprint of a hash node or the
 *    metadata TLV payload of a metadata leaf. A parent level > 255 is impossible ("level arithmetic
 *    leaves 0..255").
 *  For uniform leaf levels this is the only reading (perfect by count == perfect by height). For
 *  mixed levels "equal-height neighbours" could also be read by level; the count reading is the one
 *  stated by the anchors (slot i = i carries), and the primary oracle (O1) is independent of it.
 * ====================================================================================== */
#define RN_BYTES 72
typedef struct { unsigned char b[RN_BYTES]; size_t n; int level; unsigned cnt; } rnode;
typedef struct { rnode t[12]; int n; } rforest;

/* level-only probe: what would adding a leaf of this level do?
 *  *carry_fail_depth = -1, or the index (0 = first merge) of the carry merge whose level exceeds 255
 *  *close_level      = root level if the tree were closed right after adding (unclamped) */
static void rf_probe(const rforest *f, int level, int *carry_fail_depth, int *close_level) {
	int lv[14], n = f->n, i, depth = 0, r;
	unsigned cnt[14];
	for (i = 0; i < n; i++) { lv[i] = f->t[i].level; cnt[i] = f->t[i].cnt; }
	lv[n] = level; cnt[n] = 1; n++;
	*carry_fail_depth = -1;
	*close_level = 256;
	while (n >= 2 && cnt[n - 1] == cnt[n - 2]) {
		int l = (lv[n - 2] > lv[n - 1] ? lv[n - 2] : lv[n - 1]) + 1;
		if (l > 255) { *carry_fail_depth = depth; return; }
		lv[n - 2] = l; cnt[n - 2] *= 2; n--; depth++;
	}
	r = lv[n - 1];
	for (i = n - 2; i >= 0; i--) r = (r > lv[i] ? r : lv[i]) + 1;
	*close_level = r;
}

static int rn_merge(int alg, const rnode *l, const rnode *r, rnode *out) {
	rnode p;
	unsigned char lb;
	int lv = (l->level > r->level ? l->level : r->level) + 1;
	if (lv > 255) return -1;
	lb = (unsigned char)lv;
	p.n = ref_imprint2(alg, l->b, l->n, r->b, r->n, &lb, 1, p.b);
	if (p.n == 0) vf_harness_error("reference digest %d not computable", alg);
	p.level = lv;
	p.cnt = l->cnt + r->cnt;
	*out = p;
	return 0;
}

/* append a leaf (with carries). -1 = a carry merge leaves 0..255 (forest unchanged) */
static int rf_add(rforest *f, int alg, const rnode *leaf) {
	rforest g = *f;
	if (g.n >= 11) vf_harness_error("reference forest too deep");
	g.t[g.n] = *leaf; g.t[g.n].cnt = 1; g.n++;
	while (g.n >= 2 && g.t[g.n - 1].cnt == g.t[g.n - 2].cnt) {
		if (rn_merge(alg, &g.t[g.n - 2], &g.t[g.n - 1], &g.t[g.n - 2]) != 0) return -1;
		g.n--;
	}
	*f = g;
	return 0;
}

/* fold the remaining forest from the right. -1 = level leaves 0..255 */
static int rf_close(const rforest *f, int alg, rnode *root) {
	rnode r;
	int i;
	if (f->n == 0) return -2;
	r = f->t[f->n - 1];
	for (i = f->n - 2; i >= 0; i--) if (rn_merge(alg, &f->t[i], &r, &r) != 0) return -1;
	*root = r;
	return 0;
}

/* ====================================================================================== driver */
/* The runner reads the shards' output pipes one after the other; a shard that prints more than the
 * pipe buffer (64 KiB) blocks until its turn. The same few signatures occur in thousands of cases
 * here, so only the first cases of a signature (per process) carry the full detail text. */
static int g_own_process = 0, g_silent = 0;
static int fail_full(const char *sig) {
	static struct { char sig[64]; int n; } tab[24];
	int i;
	if (vf_replaying()) return 1;
	if (g_own_process) return 0;
	for (i = 0; i < 24; i++) {
		if (tab[i].sig[0] == 0) snprintf(tab[i].sig, sizeof tab[i].sig, "%s", sig);
		if (strncmp(tab[i].sig, sig, sizeof tab[i].sig - 1) == 0) return tab[i].n++ < 6;
	}
	return 0;
}
#define FAIL(sig, ...) do { if (g_silent) break; if (fail_full(sig)) vf_fail(sig, __VA_ARGS__); else vf_fail(sig, "(detail: replay the case)"); } while (0)
#define OUTCOME(...) do { if (!g_silent) vf_outcome(__VA_ARGS__); } while (0)
#define COUNT(k, n) do { if (!g_silent) vf_count(k, n); } while (0)
#define VMAX(k, n) do { if (!g_silent) vf_max(k, n); } while (0)

#define MAXLEAVES 66
typedef struct { int level; int meta; } leafspec;

static const char *meta_client(int i) {
	static char b[16];
	snprintf(b, sizeof b, "m%d", i);
	return b;
}

/* the reference bytes of leaf i (what enters the parent's hash) */
static void ref_leaf(int i, const leafspec *sp, int leaf_alg, rnode *out) {
	memset(out, 0, sizeof *out);
	out->level = sp->level;
	out->cnt = 1;
	if (sp->meta) {
		/* re-derived from what is added: padding (tag 1e, N+F flags, so that the length is even),
		 * client id, and for odd positions machine id / sequence nr / request time */
		rlink l;
		ref_link_meta(&l, 0, meta_client(i), 1, i & 1, 0);
		if (l.sib_len > RN_BYTES) vf_harness_error("metadata payload too long");
		memcpy(out->b, l.sib, l.sib_len);
		out->n = l.sib_len;
	} else {
		out->n = ref_fake_imprint(leaf_alg, (unsigned)(i + 1), out->b);
	}
}

/* a metadata leaf that cannot be hashed: client id and machine id together exceed what one TLV holds */
static KSI_MetaData *make_unhashable_meta(void) {
	KSI_MetaData *m = NULL;
	KSI_Utf8String *s = NULL;
	static char big[40001];
	memset(big, 'a', 40000); big[40000] = 0;
	if (KSI_MetaData_new(ctx, &m) != KSI_OK) vf_harness_error("KSI_MetaData_new");
	if (KSI_Utf8String_new(ctx, big, 40001, &s) != KSI_OK || KSI_MetaData_setClientId(m, s) != KSI_OK) vf_harness_error("big client id");
	KSI_Utf8String_free(s); s = NULL;
	if (KSI_Utf8String_new(ctx, big, 40001, &s) != KSI_OK || KSI_MetaData_setMachineId(m, s) != KSI_OK) vf_harness_error("big machine id");
	KSI_Utf8String_free(s);
	return m;
}

static KSI_MetaData *make_meta(int i) {
	KSI_MetaData *m = NULL;
	KSI_Utf8String *s = NULL;
	const char *c = meta_client(i);
	if (KSI_MetaData_new(ctx, &m) != KSI_OK) vf_harness_error("KSI_MetaData_new");
	if (KSI_Utf8String_new(ctx, c, strlen(c) + 1, &s) != KSI_OK || KSI_MetaData_setClientId(m, s) != KSI_OK) vf_harness_error("client id");
	KSI_Utf8String_free(s);
	if (i & 1) {
		KSI_Integer *n = NULL;
		s = NULL;
		if (KSI_Utf8String_new(ctx, "machine", 8, &s) != KSI_OK || KSI_MetaData_setMachineId(m, s) != KSI_OK) vf_harness_error("machine id");
		KSI_Utf8String_free(s);
		if (KSI_Integer_new(ctx, 7, &n) != KSI_OK || KSI_MetaData_setSequenceNr(m, n) != KSI_OK) vf_harness_error("sequence nr");
		KSI_Integer_free(n); n = NULL;
		if (KSI_Integer_new(ctx, 1500000000000000ULL, &n) != KSI_OK || KSI_MetaData_setRequestTimeInMicros(m, n) != KSI_OK) vf_harness_error("request time");
		KSI_Integer_free(n);
	}
	return m;
}

typedef struct {
	int n, alg;
	rnode leaf[MAXLEAVES];
	int acc[MAXLEAVES];
	KSI_DataHash *dh[MAXLEAVES];
	KSI_MetaData *md[MAXLEAVES];
	KSI_TreeLeafHandle *h[MAXLEAVES];
	const leafspec *sp;
} seqstate;

/* convert one extracted link into a reference link. returns 0 ok */
static int conv_link(const seqstate *st, KSI_HashChainLink *lk, rlink *out) {
	int isLeft = -1, k = 0, i;
	KSI_Integer *corr = NULL;
	KSI_DataHash *imp = NULL;
	KSI_MetaDataElement *mde = NULL;
	KSI_OctetString *leg = NULL;
	memset(out, 0, sizeof *out);
	if (KSI_HashChainLink_getIsLeft(lk, &isLeft) != KSI_OK || (isLeft != 0 && isLeft != 1)) { FAIL("link-malformed", "direction unreadable (%d)", isLeft); return -1; }
	KSI_HashChainLink_getLevelCorrection(lk, &corr);
	KSI_HashChainLink_getImprint(lk, &imp);
	KSI_HashChainLink_getMetaData(lk, &mde);
	KSI_HashChainLink_getLegacyId(lk, &leg);
	out->is_left = isLeft;
	out->level_corr = corr ? KSI_Integer_getUInt64(corr) : 0;
	k = (imp != NULL) + (mde != NULL) + (leg != NULL);
	if (k != 1) { FAIL("link-malformed", "link carries %d sibling values (imprint %d, metadata %d, legacy id %d); exactly one expected", k, imp != NULL, mde != NULL, leg != NULL); return -1; }
	if (leg != NULL) { FAIL("link-malformed", "legacy id sibling in a locally built tree"); return -1; }
	if (imp != NULL) {
		const unsigned char *p = NULL;
		size_t l = 0;
		if (KSI_DataHash_getImprint(imp, &p, &l) != KSI_OK || l > sizeof out->sib) { FAIL("link-malformed", "sibling imprint unreadable"); return -1; }
		out->kind = RL_IMPRINT;
		memcpy(out->sib, p, l);
		out->sib_len = l;
	} else {
		/* raw payload of the metadata element; it must be byte-identical to the payload of one of the
		 * metadata leaves that were added (re-derived by the reference) */
		KSI_TLV *tlv = NULL;
		const unsigned char *p = NULL;
		size_t l = 0;
		int found = -1;
		if (KSI_MetaDataElement_toTlv(ctx, mde, 0x04, 0, 0, &tlv) != KSI_OK || KSI_TLV_getRawValue(tlv, &p, &l) != KSI_OK) {
			KSI_TLV_free(tlv);
			FAIL("link-malformed", "metadata sibling can not be serialized");
			return -1;
		}
		for (i = 0; i < st->n; i++) if (st->sp[i].meta && st->acc[i] && st->leaf[i].n == l && memcmp(st->leaf[i].b, p, l) == 0) { found = i; break; }
		if (found < 0) {
			FAIL("meta-link-payload", "metadata sibling payload %s is not the payload of any accepted metadata leaf", vf_hex(p, l));
			KSI_TLV_free(tlv);
			return -1;
		}
		out->kind = RL_META;
		memcpy(out->sib, st->leaf[found].b, st->leaf[found].n);
		out->sib_len = st->leaf[found].n;
		KSI_TLV_free(tlv);
	}
	return 0;
}

/* (O1) for leaf i against the builder's root */
static void check_proof(const seqstate *st, int i, const unsigned char *root, size_t root_len, int root_level) {
	KSI_AggregationHashChain *c = NULL;
	KSI_LIST(KSI_HashChainLink) *ll = NULL;
	KSI_Integer *aid = NULL;
	KSI_DataHash *ih = NULL;
	rlink links[20];
	unsigned char out[RH_MAX_IMPRINT];
	size_t ol = 0, nl, k;
	int olv = -1, rr, res;
	res = KSI_TreeLeafHandle_getAggregationChain(st->h[i], &c);
	COUNT("impl_calls", 1);
	if (res != KSI_OK || c == NULL) {
		FAIL("chain-extract-failed", "leaf #%d (level %d, %s): getAggregationChain returned 0x%x", i, st->sp[i].level, st->sp[i].meta ? "metadata" : "hash", res);
		OUTCOME("proof:EXTRACT-FAILED");
		goto done;
	}
	KSI_AggregationHashChain_getAggrHashId(c, &aid);
	if (aid == NULL || KSI_Integer_getUInt64(aid) != (KSI_uint64_t)st->alg) { FAIL("chain-algorithm", "leaf #%d: chain algorithm id %lld, builder algorithm %d", i, aid ? (long long)KSI_Integer_getUInt64(aid) : -1LL, st->alg); goto done; }
	KSI_AggregationHashChain_getInputHash(c, &ih);
	if (!st->sp[i].meta && !ku_hash_eq(ih, st->leaf[i].b, st->leaf[i].n)) { FAIL("chain-input", "leaf #%d: chain input hash %s is not the leaf hash %s", i, ku_hash_hex(ih), vf_hex(st->leaf[i].b, st->leaf[i].n)); goto done; }
	if (st->sp[i].meta && ih != NULL) { FAIL("chain-input", "metadata leaf #%d: chain carries an input hash %s", i, ku_hash_hex(ih)); goto done; }
	KSI_AggregationHashChain_getChain(c, &ll);
	nl = KSI_HashChainLinkList_length(ll);
	if (nl > sizeof links / sizeof *links) { FAIL("chain-too-long", "leaf #%d: %zu links", i, nl); goto done; }
	for (k = 0; k < nl; k++) {
		KSI_HashChainLink *lk = NULL;
		if (KSI_HashChainLinkList_elementAt(ll, k, &lk) != KSI_OK || lk == NULL) { FAIL("link-malformed", "link %zu unreadable", k); goto done; }
		if (conv_link(st, lk, &links[k]) != 0) goto done;
	}
	rr = ref_chain_aggregate(st->alg, st->leaf[i].b, st->leaf[i].n, st->sp[i].level, links, nl, out, &ol, &olv);
	if (rr != 0) {
		FAIL("proof-mismatch", "leaf #%d (level %d): extracted chain of %zu links is not computable by the chain formula (level leaves 0..255 / correction > 255)", i, st->sp[i].level, nl);
		OUTCOME("proof:MISMATCH");
	} else if (olv != root_level || ol != root_len || memcmp(out, root, ol) != 0) {
		FAIL("proof-mismatch", "leaf #%d (level %d, %zu links): chain recomputes level %d root %s, builder root level %d %s", i, st->sp[i].level, nl, olv, vf_hex(out, ol), root_level, vf_hex(root, root_len));
		OUTCOME("proof:MISMATCH");
	} else {
		OUTCOME(st->sp[i].meta ? "proof:ok-metadata-leaf" : "proof:ok");
		COUNT("proofs_verified", 1);
		VMAX("max_chain_links", (long)nl);
	}
	vf_obs("p%d:%zu:%d", i, nl, olv);
done:
	KSI_AggregationHashChain_free(c);
}

/* one leaf sequence on one builder. leaf_alg: algorithm of the (fake) leaf imprints */
static void seq_body(const leafspec *sp, int n, int maxlevel, int alg, int leaf_alg) {
	static seqstate st;            /* static: large; one case at a time */
	long base = vf_alloc_live;
	KSI_TreeBuilder *b = NULL;
	rforest F;
	int i, res, nacc = 0, desync = 0, doomed = 0, nrefused = 0;
	memset(&st, 0, sizeof st);
	F.n = 0;
	st.n = n; st.alg = alg; st.sp = sp;
	if (n > MAXLEAVES) vf_harness_error("sequence too long");
	res = KSI_TreeBuilder_new(ctx, (KSI_HashAlgorithm)alg, &b);
	if (res != KSI_OK || b == NULL) vf_harness_error("KSI_TreeBuilder_new failed 0x%x", res);
	if (maxlevel > 0) b->maxTreeLevel = (short)maxlevel;

	for (i = 0; i < n; i++) {
		enum { E_ACCEPT, E_BAD, E_MAX, E_OVF } exp;
		int lvl = sp[i].level, cfd = -1, cl = 0, ok;
		if (sp[i].meta != 2) ref_leaf(i, &sp[i], leaf_alg, &st.leaf[i]);
		if (sp[i].meta == 2) exp = E_ACCEPT;
		else if (lvl < 0 || lvl > 255) exp = E_BAD;
		else {
			rf_probe(&F, lvl, &cfd, &cl);
			if (maxlevel > 0 && (cfd >= 0 || cl > maxlevel)) exp = E_MAX;
			else if (cfd >= 0 || cl > 255) exp = E_OVF;
			else exp = E_ACCEPT;
		}
		if (sp[i].meta == 2) {
			/* a leaf that cannot be hashed, offered where it would have to be joined with its left neighbour at once: if it is refused,
			 * the tree is the tree of the other leaves; if it is taken, the reference has no tree for the rest */
			st.md[i] = make_unhashable_meta();
			res = KSI_TreeBuilder_addMetaData(b, st.md[i], lvl, &st.h[i]);
			COUNT("impl_calls", 1);
			vf_obs("a%d:%d", i, res == KSI_OK);
			if (res != KSI_OK && st.h[i] != NULL) FAIL("handle-on-refusal", "leaf #%d refused (0x%x) but a handle was returned", i, res);
			if (res == KSI_OK) { OUTCOME("leaf:unhashable-accepted"); st.acc[i] = 0; desync = 1; KSI_TreeLeafHandle_free(st.h[i]); st.h[i] = NULL; }
			else { OUTCOME("leaf:refused-unhashable"); nrefused++; }
			continue;
		}
		if (sp[i].meta) {
			st.md[i] = make_meta(i);
			res = KSI_TreeBuilder_addMetaData(b, st.md[i], lvl, &st.h[i]);
		} else {
			if (KSI_DataHash_fromImprint(ctx, st.leaf[i].b, st.leaf[i].n, &st.dh[i]) != KSI_OK) vf_harness_error("KSI_DataHash_fromImprint");
			res = KSI_TreeBuilder_addDataHash(b, st.dh[i], lvl, &st.h[i]);
		}
		COUNT("impl_calls", 1);
		ok = (res == KSI_OK);
		vf_obs("a%d:%d", i, ok);
		if (ok && st.h[i] == NULL) FAIL("no-handle", "leaf #%d accepted but no handle returned", i);
		if (!ok && st.h[i] != NULL) FAIL("handle-on-refusal", "leaf #%d refused (0x%x) but a handle was returned", i, res);
		switch (exp) {
			case E_ACCEPT:
				if (ok) OUTCOME("leaf:accepted");
				else {
					OUTCOME("leaf:VALID-REFUSED");
					FAIL("valid-leaf-refused", "leaf #%d (level %d): root level after adding would be %d (max level %s%d) - reference accepts, library refused with 0x%x", i, lvl, cl, maxlevel > 0 ? "" : "unset/", maxlevel > 0 ? maxlevel : 255, res);
				}
				break;
			case E_BAD:
				if (!ok) OUTCOME("leaf:refused-badlevel");
				else { OUTCOME("leaf:BADLEVEL-ACCEPTED"); FAIL("bad-level-accepted", "leaf #%d with level %d outside 0..255 accepted", i, lvl); }
				break;
			case E_MAX:
				if (!ok) OUTCOME("leaf:refused-maxlevel");
				else { OUTCOME("leaf:MAXLEVEL-ACCEPTED"); FAIL("maxlevel-leaf-accepted", "leaf #%d (level %d): root level after adding would be %s%d > maximum level %d, but the leaf was accepted", i, lvl, cfd >= 0 ? ">" : "", cfd >= 0 ? 255 : cl, maxlevel); }
				break;
			case E_OVF:
				if (!ok) OUTCOME(cfd >= 0 ? "leaf:refused-overflow-in-carry" : "leaf:refused-overflow-at-close");
				else if (doomed) OUTCOME("leaf:accepted-into-unclosable-tree");
				else {
					doomed = 1;
					OUTCOME("leaf:OVERFLOW-ACCEPTED");
					FAIL("overflow-leaf-accepted", "leaf #%d (level %d), no maximum level: the root level of the tree including this leaf would be %s (level arithmetic leaves 0..255) but the leaf was accepted%s", i, lvl,
					        cfd >= 0 ? "> 255 during the carry" : "256 or more at close", cfd >= 0 ? "" : "; close can only fail and the leaves accepted before lose their proofs");
				}
				break;
		}
		if (!ok) { nrefused++; continue; }
		st.acc[i] = 1;
		nacc++;
		if (exp == E_BAD || cfd >= 0) desync = 1;          /* the reference has no tree for this */
		else if (!desync && rf_add(&F, alg, &st.leaf[i]) != 0) desync = 1;
	}

	res = KSI_TreeBuilder_close(b);
	COUNT("impl_calls", 1);
	vf_obs("close:%d", res == KSI_OK);
	if (nacc == 0) {
		/* nothing accepted: the statement does not speak about closing an empty builder */
		OUTCOME("close:empty:%s", res == KSI_OK ? "ok" : "err");
		if (res == KSI_OK && b->rootNode != NULL) FAIL("root-of-nothing", "close of a builder without leaves produced a root");
	} else {
		rnode R;
		int rc = desync ? -3 : rf_close(&F, alg, &R);
		if (res != KSI_OK) {
			if (rc == -1) OUTCOME("close:err-root-level-beyond-255");    /* consequence of overflow-leaf-accepted above */
			else { OUTCOME("close:FAILED"); FAIL("close-failed", "close failed with 0x%x although %d leaves were accepted and the reference root level is %d", res, nacc, rc == 0 ? R.level : -1); }
		} else if (b->rootNode == NULL) {
			FAIL("no-root", "close returned OK but there is no root node");
		} else {
			unsigned char root[RN_BYTES];
			size_t root_len = 0;
			int root_level = (int)b->rootNode->level;
			if (b->rootNode->hash != NULL) {
				const unsigned char *p = NULL;
				size_t l = 0;
				if (KSI_DataHash_getImprint(b->rootNode->hash, &p, &l) != KSI_OK || l > sizeof root) vf_harness_error("root imprint unreadable");
				memcpy(root, p, l);
				root_len = l;
			} else {
				/* single metadata leaf: the root node is that leaf */
				for (i = 0; i < n; i++) if (st.acc[i] && st.md[i] != NULL && b->rootNode->metaData == st.md[i]) { memcpy(root, st.leaf[i].b, st.leaf[i].n); root_len = st.leaf[i].n; }
				if (root_len == 0) FAIL("no-root", "root node has neither a hash nor the metadata of an accepted leaf");
			}
			OUTCOME("close:ok");
			if (rc == 0) {
				if (root_level != R.level || root_len != R.n || memcmp(root, R.b, R.n) != 0) {
					OUTCOME("root:NOT-CANONICAL");
					FAIL("root-not-canonical", "%d accepted leaves: canonical merge gives level %d root %s, builder root level %d %s", nacc, R.level, vf_hex(R.b, R.n), root_level, vf_hex(root, root_len));
				} else OUTCOME(nrefused ? "root:canonical-after-refusal" : "root:canonical");
			} else if (rc == -1) {
				FAIL("close-beyond-255", "reference root level exceeds 255 but close succeeded with root level %d", root_level);
			}
			vf_obs("root:%d:%s", root_level, vf_hex(root, root_len));
			if (root_len != 0) for (i = 0; i < n; i++) if (st.acc[i] && st.h[i] != NULL) check_proof(&st, i, root, root_len, root_level);
			if (nrefused) COUNT("proofs_checked_after_refusal", nacc);
		}
	}

	for (i = 0; i < n; i++) KSI_TreeLeafHandle_free(st.h[i]);
	KSI_TreeBuilder_free(b);
	for (i = 0; i < n; i++) { KSI_DataHash_free(st.dh[i]); KSI_MetaData_free(st.md[i]); }
	if (vf_alloc_live != base) {
		OUTCOME("mem:LEAK");
		FAIL("leak", "%ld SDK blocks still live after freeing handles, builder and leaves (%d leaves, %d accepted, close %s)", vf_alloc_live - base, n, nacc, res == KSI_OK ? "ok" : "failed");
	} else OUTCOME("mem:baseline");
	COUNT("leaves_added", n);
}

/* Does the sequence contain a refusal that happens in the middle of a carry (a merge at carry
 * depth >= 1 leaves 0..255, after at least one merge succeeded)? Those are the "failure by
 * construction" cases; they are executed in a forked process of their own, so that a sanitizer
 * abort there is reported as an ordinary violation of this case and does not use up the runner's
 * crash-restart budget (40 per shard) - the space contains thousands of them. */
/* level-only append (the caller has checked with rf_probe that no carry merge overflows) */
static void lf_push(rforest *F, int level) {
	F->t[F->n].level = level; F->t[F->n].cnt = 1; F->n++;
	while (F->n >= 2 && F->t[F->n - 1].cnt == F->t[F->n - 2].cnt) {
		int k = F->t[F->n - 2].level > F->t[F->n - 1].level ? F->t[F->n - 2].level : F->t[F->n - 1].level;
		F->t[F->n - 2].level = k + 1; F->t[F->n - 2].cnt *= 2; F->n--;
	}
}

static int predict_mid_carry(const leafspec *sp, int n, int maxlevel, int *at, int *depth) {
	rforest F;            /* levels and counts only */
	int i;
	F.n = 0;
	for (i = 0; i < n; i++) {
		int cfd, cl;
		if (sp[i].level < 0 || sp[i].level > 255) continue;
		rf_probe(&F, sp[i].level, &cfd, &cl);
		if (maxlevel > 0 && (cfd >= 0 || cl > maxlevel)) continue;
		if (cfd >= 1) { *at = i; *depth = cfd; return 1; }
		if (cfd == 0) continue;
		lf_push(&F, sp[i].level);
	}
	return 0;
}

/* --- running a case body in a process of its own ---
 * A full ASan report (three symbolized stack traces) costs ~0.1-0.2 s; the space holds thousands of
 * cases that end in one. So the body first runs with the report suppressed: __asan_on_error (called
 * by the ASan runtime when an error was detected, before anything is printed) writes the error
 * class and the faulting pc and ends the process. The first time a (class, pc) pair is seen in this
 * process the case is run once more with the full report, from which the signature
 * crash:<class>:<first libksi function> is taken and remembered for that pair. */
#if defined(__SANITIZE_ADDRESS__)
#include <sanitizer/asan_interface.h>
static int g_fast_report = 0;
void __asan_on_error(void) {
	if (g_fast_report) {
		char b[200];
		int k = snprintf(b, sizeof b, "C16FAST %s %p\n", __asan_get_report_description(), __asan_get_report_pc());
		ssize_t r = write(2, b, (size_t)k);
		(void)r;
		_exit(99);
	}
}
#else
static int g_fast_report = 0;
#endif

/* returns the wait status; stderr of the body in buf */
static int run_in_own_process(const leafspec *sp, int n, int maxlevel, int alg, int leaf_alg, int fast, char *buf, size_t cap) {
	int pfd[2], st = 0;
	pid_t pid;
	size_t got = 0;
	if (pipe(pfd) != 0) vf_harness_error("pipe");
	fflush(NULL);
	pid = fork();
	if (pid < 0) vf_harness_error("fork");
	if (pid == 0) {
		close(pfd[0]);
		dup2(pfd[1], 2);
		close(pfd[1]);
		alarm(100);
		g_own_process = 1;
		g_fast_report = fast;
		if (!fast) g_silent = 1;             /* second run of the same case: report nothing twice */
		seq_body(sp, n, maxlevel, alg, leaf_alg);
		_exit(0);
	}
	close(pfd[1]);
	for (;;) {
		char tmp[4096];
		ssize_t r = read(pfd[0], tmp, sizeof tmp);
		if (r < 0 && errno == EINTR) continue;
		if (r <= 0) break;
		if (got + (size_t)r < cap) { memcpy(buf + got, tmp, (size_t)r); got += (size_t)r; }
		else if (got < cap - 1) { size_t k = cap - 1 - got; memcpy(buf + got, tmp, k); got += k; }
	}
	buf[got] = 0;
	close(pfd[0]);
	while (waitpid(pid, &st, 0) < 0 && errno == EINTR) {}
	return st;
}

static void run_seq(const leafspec *sp, int n, int maxlevel, int alg, int leaf_alg) {
	static struct { char key[120]; char sig[200]; } known[16];
	static char buf[32768];
	int at = 0, depth = 0, st;
	if (!predict_mid_carry(sp, n, maxlevel, &at, &depth)) {
		seq_body(sp, n, maxlevel, alg, leaf_alg);
		vf_case_end(1);
		return;
	}
	COUNT("cases_run_in_own_process", 1);
	st = run_in_own_process(sp, n, maxlevel, alg, leaf_alg, 1, buf, sizeof buf);
	if (WIFEXITED(st) && WEXITSTATUS(st) == 0) {
		vf_obs("own-process:clean");
		OUTCOME("midcarry:refused-cleanly");
	} else if (WIFEXITED(st) && WEXITSTATUS(st) == 2 && !strstr(buf, "Sanitizer") && !strstr(buf, "runtime error")) {
		vf_harness_error("case body reported a harness error in its own process");
	} else {
		char sig[200] = "", key[120] = "", *p, *q;
		int ki = -1, i;
		if (WIFEXITED(st) && WEXITSTATUS(st) == 99 && (p = strstr(buf, "C16FAST ")) != NULL) {
			snprintf(key, sizeof key, "%.*s", (int)strcspn(p + 8, "\n"), p + 8);
			for (i = 0; i < 16 && known[i].key[0]; i++) if (strcmp(known[i].key, key) == 0) ki = i;
			if (ki >= 0) snprintf(sig, sizeof sig, "%s", known[ki].sig);
			else {
				st = run_in_own_process(sp, n, maxlevel, alg, leaf_alg, 0, buf, sizeof buf);
				if (vf_replaying()) fprintf(stderr, "---- sanitizer report of the case body ----\n%s\n", buf);
			}
		}
		if (!sig[0]) {
			/* same signature scheme as the runner: crash:<kind>:<first libksi function> */
			char kind[80] = "", where[100] = "";
			if ((p = strstr(buf, "ERROR: AddressSanitizer: "))) {
				p += strlen("ERROR: AddressSanitizer: ");
				snprintf(kind, sizeof kind, "%.*s", (int)strcspn(p, " \n"), p);
			} else if (strstr(buf, "runtime error: ")) snprintf(kind, sizeof kind, "ubsan");
			else if (WIFSIGNALED(st) && WTERMSIG(st) == SIGALRM) snprintf(kind, sizeof kind, "hang");
			else snprintf(kind, sizeof kind, "%s", WIFSIGNALED(st) ? "signal" : "abort");
			for (p = buf; (p = strstr(p, "/src/ksi/")) != NULL; p++) {      /* first stack frame inside the library */
				char *ls = p;
				while (ls > buf && ls[-1] != '\n') ls--;
				q = strstr(ls, " in ");
				if (q && q < p) { q += 4; snprintf(where, sizeof where, "%.*s", (int)strcspn(q, " \n"), q); break; }
			}
			snprintf(sig, sizeof sig, "crash:%s:%s", kind, where[0] ? where : "?");
			if (key[0]) for (i = 0; i < 16; i++) if (!known[i].key[0]) { snprintf(known[i].key, sizeof known[i].key, "%s", key); snprintf(known[i].sig, sizeof known[i].sig, "%s", sig); break; }
		}
		vf_obs("own-process:%s", sig);
		OUTCOME("midcarry:CRASH");
		FAIL(sig, "leaf #%d (level %d) must be refused: its carry fails at merge depth %d (level would exceed 255) after %d merge(s) succeeded; the process ended abnormally while refusing it", at, sp[at].level, depth, depth);
	}
	vf_case_end(1);
}

/* ---------------------------------------------------------------------------------- enumeration */
static const int LEVELS[] = {0, 1, 2, 5, 253, 254, 255};
#define NLEVELS 7
static const int MAXS[] = {0, 1, 2, 3, 8, 255};
#define NMAXS 6

static void seq_name(char *out, size_t cap, const leafspec *sp, int n) {
	size_t o = 0;
	int i;
	out[0] = 0;
	for (i = 0; i < n && o + 12 < cap; i++) o += (size_t)snprintf(out + o, cap - o, "%s%d%s", i ? "." : "", sp[i].level, sp[i].meta == 2 ? "U" : sp[i].meta ? "m" : "");
}

/* (u) uniform level: all leaf counts */
static void part_uniform(void) {
	static const int UALG[] = {RH_SHA256, RH_SHA1, RH_RIPEMD160, RH_SHA384, RH_SHA512};
	static const int ULEV[] = {0, 1, 250};
	static const int UMAX0[] = {0, 1, 2, 3, 4, 5, 6, 7, 8, 255};
	int li, n, mi, ai, i;
	for (li = 0; li < 3; li++) {
		int lev = ULEV[li], nmax = (lev == 0) ? 64 : 16;
		for (n = 1; n <= nmax; n++) {
			leafspec sp[MAXLEAVES];
			for (i = 0; i < n; i++) { sp[i].level = lev; sp[i].meta = 0; }
			if (lev == 0) {
				for (mi = 0; mi < 10; mi++) {
					if (!vf_case_begin("u:A1:L0:n%d:M%d", n, UMAX0[mi])) continue;
					if (n == 5 && mi == 0) vf_sample("u: %d leaves at level 0, SHA-256, no maximum level: every leaf's chain and the canonical root", n);
					run_seq(sp, n, UMAX0[mi], RH_SHA256, RH_SHA256);
				}
				for (ai = 1; ai < 5; ai++) {
					if (!vf_case_begin("u:A%d:L0:n%d:M0", UALG[ai], n)) continue;
					run_seq(sp, n, 0, UALG[ai], UALG[ai]);
				}
			} else {
				for (mi = 0; mi < NMAXS + 2; mi++) {
					int m = mi < NMAXS ? MAXS[mi] : lev + (mi - NMAXS) + 2;   /* plus lev+2, lev+3: boundary inside 1..16 leaves */
					if (!vf_case_begin("u:A1:L%d:n%d:M%d", lev, n, m)) continue;
					run_seq(sp, n, m, RH_SHA256, RH_SHA256);
				}
			}
		}
	}
}

/* (x) mixed levels: all sequences x all maximum-level settings */
static void part_mixed(void) {
	int maxlen = VF_THOROUGH ? 6 : 5, len, mi, i;
	/* the maximum-level setting is the OUTER loop: cases of one setting are consecutive and therefore
	 * spread evenly over the shards (the expensive ones all have "no maximum level") */
	for (mi = 0; mi < NMAXS; mi++)
	for (len = 1; len <= maxlen; len++) {
		long total = 1, idx;
		for (i = 0; i < len; i++) total *= NLEVELS;
		for (idx = 0; idx < total; idx++) {
			leafspec sp[6];
			char name[80];
			long x = idx;
			for (i = 0; i < len; i++) { sp[i].level = LEVELS[x % NLEVELS]; sp[i].meta = 0; x /= NLEVELS; }
			seq_name(name, sizeof name, sp, len);
			if (!vf_case_begin("x:M%d:%s", MAXS[mi], name)) continue;
			if (len == 4 && idx == 1000 && mi == 0) vf_sample("x: leaf levels %s, no maximum level: accept/refuse per leaf, canonical root, every accepted leaf's chain", name);
			run_seq(sp, len, MAXS[mi], RH_SHA256, RH_SHA256);
		}
	}
}

/* (m) metadata leaves at every non-empty subset of positions */
static void part_meta(void) {
	static const int QL[] = {0, 1, 254, 255};
	static const int MM[] = {0, 3, 255};
	int maxlen = VF_THOROUGH ? 5 : 4, len, i, mi;
	const int *lv = VF_THOROUGH ? LEVELS : QL;
	int nlv = VF_THOROUGH ? NLEVELS : 4;
	for (mi = 0; mi < 3; mi++)          /* outer loop: see part_mixed */
	for (len = 1; len <= maxlen; len++) {
		long total = 1, idx;
		/* maximum-level settings for the short sequences only */
		if (mi > 0 && len > (VF_THOROUGH ? 4 : 3)) continue;
		for (i = 0; i < len; i++) total *= nlv;
		for (idx = 0; idx < total; idx++) {
			int mask;
			for (mask = 1; mask < (1 << len); mask++) {
				leafspec sp[5];
				char name[80];
				long x = idx;
				for (i = 0; i < len; i++) { sp[i].level = lv[x % nlv]; sp[i].meta = (mask >> i) & 1; x /= nlv; }
				seq_name(name, sizeof name, sp, len);
				if (!vf_case_begin("m:M%d:%s", MM[mi], name)) continue;
				if (len == 3 && idx == 5 && mask == 2 && mi == 0) vf_sample("m: leaves %s ('m' = metadata leaf): metadata siblings hashed by their TLV payload", name);
				run_seq(sp, len, MM[mi], RH_SHA256, RH_SHA256);
			}
		}
	}
}

/* (h) a leaf that cannot be hashed (metadata too large for one TLV), offered after an odd number of level-0 leaves (so that it would have
 * to be joined at once), followed by 0..3 further leaves: the refusal leaves the tree of the other leaves */
static void part_unhashable(void) {
	int before, after, mm;
	for (before = 1; before <= (VF_THOROUGH ? 15 : 7); before += 2) for (after = 0; after <= 3; after++) for (mm = 0; mm < 2; mm++) {
		leafspec sp[24];
		char name[120];
		int i, n = 0;
		for (i = 0; i < before; i++) { sp[n].level = 0; sp[n].meta = (mm && i == before - 1) ? 1 : 0; n++; }
		sp[n].level = 0; sp[n].meta = 2; n++;
		for (i = 0; i < after; i++) { sp[n].level = 0; sp[n].meta = 0; n++; }
		seq_name(name, sizeof name, sp, n);
		if (!vf_case_begin("h:%d+U+%d:%s", before, after, mm ? "meta-neighbour" : "hash-neighbour")) continue;
		seq_body(sp, n, 0, RH_SHA256, RH_SHA256);
		vf_case_end(1);
	}
}

/* (p) leaf processors (the public mechanism the block signer uses for its metadata and masking siblings): "tag" and "blind" add a hash
 * sibling each, "quota" refuses one chosen leaf after the siblings were made. Every combination of tag / blind, every refused position
 * (or none), 1..5 level-0 leaves. The refusal must leave the tree of the other leaves (with their siblings); proofs of all accepted
 * leaves are recomputed. */
typedef struct { int on; unsigned base; } pr_sib_t;
typedef struct { int refuse_at; } pr_quota_t;
static int g_pr_leaf;
static int pr_sibling(KSI_TreeNode *in, void *c, KSI_TreeNode **out) {
	pr_sib_t *p = (pr_sib_t *)c;
	unsigned char imp[RH_MAX_IMPRINT];
	size_t n;
	KSI_DataHash *h = NULL;
	int res;
	*out = NULL;
	if (!p->on) return KSI_OK;
	n = ref_fake_imprint(RH_SHA256, p->base + (unsigned)g_pr_leaf, imp);
	res = KSI_DataHash_fromImprint(ctx, imp, n, &h);
	if (res != KSI_OK) return res;
	res = KSI_TreeNode_new(ctx, h, NULL, (int)in->level, out);
	KSI_DataHash_free(h);
	return res;
}
static int pr_quota(KSI_TreeNode *in, void *c, KSI_TreeNode **out) {
	(void)in;
	*out = NULL;
	return g_pr_leaf == ((pr_quota_t *)c)->refuse_at ? KSI_SERVICE_AGGR_REQUEST_OVER_QUOTA : KSI_OK;
}
static void part_processors(void) {
	int tag, blind, n, refuse, order;
	for (tag = 0; tag < 2; tag++) for (blind = 0; blind < 2; blind++) for (order = 0; order < 2; order++) for (n = 1; n <= (VF_THOROUGH ? 7 : 5); n++) for (refuse = -1; refuse < n; refuse++) {
		static seqstate st;
		static leafspec sp[8];
		long base;
		KSI_TreeBuilder *b = NULL;
		KSI_TreeBuilderLeafProcessor ptag, pblind, pquota;
		pr_sib_t ctag, cblind;
		pr_quota_t cq;
		rforest F;
		rnode R;
		int i, res, nacc = 0;
		if (!vf_case_begin("p:tag%d:blind%d:%s:n%d:refuse%d", tag, blind, order ? "quota-first" : "quota-last", n, refuse)) continue;
		base = vf_alloc_live;
		memset(&st, 0, sizeof st); memset(sp, 0, sizeof sp);
		F.n = 0;
		st.n = n; st.alg = RH_SHA256; st.sp = sp;
		if (KSI_TreeBuilder_new(ctx, KSI_HASHALG_SHA2_256, &b) != KSI_OK) vf_harness_error("KSI_TreeBuilder_new");
		ctag.on = tag; ctag.base = 1000; cblind.on = blind; cblind.base = 2000; cq.refuse_at = refuse;
		memset(&ptag, 0, sizeof ptag); memset(&pblind, 0, sizeof pblind); memset(&pquota, 0, sizeof pquota);
		ptag.fn = pr_sibling; ptag.c = &ctag; ptag.levelOverhead = 1;
		pblind.fn = pr_sibling; pblind.c = &cblind; pblind.levelOverhead = 1;
		pquota.fn = pr_quota; pquota.c = &cq; pquota.levelOverhead = 0;
		if (order && KSI_TreeBuilderLeafProcessorList_append(b->cbList, &pquota) != KSI_OK) vf_harness_error("processor list");
		if (KSI_TreeBuilderLeafProcessorList_append(b->cbList, &ptag) != KSI_OK || KSI_TreeBuilderLeafProcessorList_append(b->cbList, &pblind) != KSI_OK) vf_harness_error("processor list");
		if (!order && KSI_TreeBuilderLeafProcessorList_append(b->cbList, &pquota) != KSI_OK) vf_harness_error("processor list");
		for (i = 0; i < n; i++) {
			rnode eff, sib, t;
			ref_leaf(i, &sp[i], RH_SHA256, &st.leaf[i]);
			if (KSI_DataHash_fromImprint(ctx, st.leaf[i].b, st.leaf[i].n, &st.dh[i]) != KSI_OK) vf_harness_error("KSI_DataHash_fromImprint");
			g_pr_leaf = i;
			res = KSI_TreeBuilder_addDataHash(b, st.dh[i], 0, &st.h[i]);
			COUNT("impl_calls", 1);
			vf_obs("a%d:%x", i, res);
			if (i == refuse) {
				if (res == KSI_OK) FAIL("refused-leaf-accepted", "leaf #%d: a leaf processor refused it but the add call succeeded", i);
				if (st.h[i] != NULL) FAIL("handle-on-refusal", "leaf #%d refused (0x%x) but a handle was returned", i, res);
				OUTCOME("leaf:refused-by-processor:%d-siblings-made", order ? 0 : tag + blind);
				if (res == KSI_OK) { st.acc[i] = 0; KSI_TreeLeafHandle_free(st.h[i]); st.h[i] = NULL; }
				continue;
			}
			if (res != KSI_OK) { FAIL("valid-leaf-refused", "leaf #%d with %d processor sibling(s): refused 0x%x", i, tag + blind, res); continue; }
			st.acc[i] = 1; nacc++;
			eff = st.leaf[i];
			memset(&sib, 0, sizeof sib);
			if (tag) { sib.n = ref_fake_imprint(RH_SHA256, 1000u + (unsigned)i, sib.b); sib.level = eff.level; sib.cnt = 0; if (rn_merge(RH_SHA256, &sib, &eff, &t) != 0) vf_harness_error("merge"); eff = t; }
			if (blind) { sib.n = ref_fake_imprint(RH_SHA256, 2000u + (unsigned)i, sib.b); sib.level = eff.level; sib.cnt = 0; if (rn_merge(RH_SHA256, &sib, &eff, &t) != 0) vf_harness_error("merge"); eff = t; }
			if (rf_add(&F, RH_SHA256, &eff) != 0) vf_harness_error("reference forest");
		}
		res = KSI_TreeBuilder_close(b);
		COUNT("impl_calls", 1);
		if (nacc == 0) OUTCOME("close:empty:%s", res == KSI_OK ? "ok" : "err");
		else if (res != KSI_OK || b->rootNode == NULL || b->rootNode->hash == NULL) FAIL("close-failed", "close failed with 0x%x although %d leaves were accepted", res, nacc);
		else if (rf_close(&F, RH_SHA256, &R) != 0) vf_harness_error("reference close");
		else {
			const unsigned char *rp = NULL;
			size_t rl = 0;
			if (KSI_DataHash_getImprint(b->rootNode->hash, &rp, &rl) != KSI_OK) vf_harness_error("root imprint unreadable");
			if ((int)b->rootNode->level != R.level || rl != R.n || memcmp(rp, R.b, rl) != 0) { OUTCOME("root:NOT-CANONICAL"); FAIL("root-not-canonical", "%d accepted leaves with %d processor sibling(s) each, leaf #%d refused: canonical merge gives level %d root %s, builder root level %d %s", nacc, tag + blind, refuse, R.level, vf_hex(R.b, R.n), (int)b->rootNode->level, vf_hex(rp, rl)); }
			else OUTCOME(refuse >= 0 ? "root:canonical-after-refusal" : "root:canonical");
			for (i = 0; i < n; i++) if (st.acc[i] && st.h[i] != NULL) check_proof(&st, i, rp, rl, (int)b->rootNode->level);
		}
		for (i = 0; i < n; i++) KSI_TreeLeafHandle_free(st.h[i]);
		/* the processors live on this stack frame: take them out of the list before the builder frees it */
		while (KSI_TreeBuilderLeafProcessorList_length(b->cbList) > 0) { KSI_TreeBuilderLeafProcessor *x = NULL; KSI_TreeBuilderLeafProcessorList_remove(b->cbList, 0, &x); }
		KSI_TreeBuilder_free(b);
		for (i = 0; i < n; i++) KSI_DataHash_free(st.dh[i]);
		if (vf_alloc_live != base) { OUTCOME("mem:LEAK"); FAIL("leak", "%ld SDK blocks still live after freeing handles, builder and leaves (%d leaves, leaf #%d refused by a processor after %d sibling(s))", vf_alloc_live - base, n, refuse, order ? 0 : tag + blind); }
		vf_case_end(1);
	}
}

/* (f) failure by construction: one tall leaf at position p among 2^(d+1)-1 level-0 leaves, then a
 * trigger leaf whose carry runs through d successful merges and fails (H) or just fits (H-1) at
 * merge depth d. H = the smallest level of the tall leaf that makes the trigger's carry fail. */
static void part_failure(void) {
	int d, p, hv, mi, tk;
	static const int FM[] = {0, 255};
	for (d = 0; d <= 5; d++) {
		int npre = (1 << (d + 1)) - 1;
		for (p = 0; p < npre; p++) {
			leafspec sp[MAXLEAVES + 2];
			int H = -1, h, i;
			/* find H with the level-only reference (no maximum level) */
			for (h = 0; h <= 255 && H < 0; h++) {
				rforest F;
				int cfd = -1, cl = 0;
				F.n = 0;
				for (i = 0; i < npre; i++) {
					rf_probe(&F, (i == p) ? h : 0, &cfd, &cl);
					if (cfd >= 0) break;
					lf_push(&F, (i == p) ? h : 0);
				}
				if (cfd >= 0) break;                 /* the prefix itself no longer fits */
				rf_probe(&F, 0, &cfd, &cl);
				if (cfd >= 0) { if (cfd != d) vf_harness_error("failure family: depth %d expected %d", cfd, d); H = h; }
			}
			if (H < 1) continue;
			for (hv = 0; hv < 2; hv++)
				for (mi = 0; mi < 2; mi++)
					for (tk = 0; tk < 2; tk++) {
						int n = npre + 1;
						if (!vf_case_begin("f:d%d:p%d:H%d:M%d:T%c", d, p, H - hv, FM[mi], tk ? 'm' : 'h')) continue;
						for (i = 0; i < npre; i++) { sp[i].level = (i == p) ? H - hv : 0; sp[i].meta = 0; }
						sp[npre].level = 0; sp[npre].meta = tk;
						/* one more small leaf after the (expected) refusal */
						sp[n].level = 0; sp[n].meta = 0; n++;
						if (d == 1 && p == 2 && hv == 0 && mi == 0 && tk == 0) vf_sample("f: %d level-0 leaves with one leaf of level %d at position %d, then a level-0 leaf whose carry overflows level 255 at merge depth %d, then one more leaf", npre - 1, H, p, d);
						run_seq(sp, n, FM[mi], RH_SHA256, RH_SHA256);
					}
		}
	}
}

/* (b) leaf levels outside 0..255 */
static void part_badlevel(void) {
	static const int BL[] = {0, 255, -1, 256, 65536, -256};
	int len, mi, i;
	for (len = 1; len <= 3; len++) {
		long total = 1, idx;
		for (i = 0; i < len; i++) total *= 6;
		for (idx = 0; idx < total; idx++) {
			leafspec sp[3];
			char name[80];
			long x = idx;
			int any = 0;
			for (i = 0; i < len; i++) { sp[i].level = BL[x % 6]; sp[i].meta = (int)((idx >> i) & 1); x /= 6; if (sp[i].level < 0 || sp[i].level > 255) any = 1; }
			if (!any) continue;
			seq_name(name, sizeof name, sp, len);
			for (mi = 0; mi < 2; mi++) {
				if (!vf_case_begin("b:M%d:%s", mi ? 255 : 0, name)) continue;
				run_seq(sp, len, mi ? 255 : 0, RH_SHA256, RH_SHA256);
			}
		}
	}
}

/* Block-signer part (masking IV, per-leaf metadata, reset histories) - needs the simulated
 * aggregator; added separately. Placeholder, intentionally not called. */
static void part_blocksigner(void) {
}

/* outside any case: one-time lazy allocations of the context / hashing back end must not count
 * as a leak of the first case of a process */
static void warm_up(void) {
	KSI_TreeBuilder *b = NULL;
	KSI_TreeLeafHandle *h[3] = {NULL, NULL, NULL};
	KSI_DataHash *dh = NULL;
	KSI_MetaData *md = make_meta(1);
	KSI_AggregationHashChain *c = NULL;
	unsigned char imp[RH_MAX_IMPRINT];
	size_t il = ref_fake_imprint(RH_SHA256, 1, imp);
	int i;
	if (KSI_TreeBuilder_new(ctx, KSI_HASHALG_SHA2_256, &b) != KSI_OK) vf_harness_error("warm-up: builder");
	b->maxTreeLevel = 1;
	if (KSI_DataHash_fromImprint(ctx, imp, il, &dh) != KSI_OK) vf_harness_error("warm-up: hash");
	KSI_TreeBuilder_addDataHash(b, dh, 0, &h[0]);
	KSI_TreeBuilder_addMetaData(b, md, 0, &h[1]);
	KSI_TreeBuilder_addDataHash(b, dh, 0, &h[2]);        /* refused: beyond the maximum level */
	KSI_TreeBuilder_close(b);
	for (i = 0; i < 2; i++) { c = NULL; if (h[i]) KSI_TreeLeafHandle_getAggregationChain(h[i], &c); KSI_AggregationHashChain_free(c); }
	for (i = 0; i < 3; i++) KSI_TreeLeafHandle_free(h[i]);
	KSI_TreeBuilder_free(b);
	KSI_DataHash_free(dh);
	KSI_MetaData_free(md);
}

static void run(void) {
	ctx = ku_ctx();
	/* no recycling of freed KSI_DataHash objects inside the context: freed hashes are really freed, so
	 * that (a) a stale reference to one is visible to ASan and (b) the live-allocation count returns to
	 * the baseline */
	KSI_CTX_setOption(ctx, KSI_OPT_DATAHASH_CACHE_SIZE, (void *)0);
	if (!ref_hash_computable(RH_SHA256)) vf_harness_error("reference digests unavailable");
	warm_up();
	part_uniform();
	part_failure();
	part_badlevel();
	part_mixed();
	part_meta();
	part_unhashable();
	part_processors();
	if (0) part_blocksigner();
	KSI_CTX_free(ctx);
}

int main(int argc, char **argv) {
	vf_driver d = {"C16", run};
	return vf_main(argc, argv, &d);
}
