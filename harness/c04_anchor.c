/* C04 - trust-anchor policies say OK only if the calendar root is bound to the anchor */
#include "anchor_fix.h"
#include <time.h>

enum { X_OK = 0, X_FAIL, X_INCONCLUSIVE, X_NOT_OK, X_SILENT };
typedef struct { int cls; int code; } expect_t;
static const char *XNAME[] = {"OK", "FAIL", "INCONCLUSIVE", "NOT-OK", "not-judged"};

static void judge(const char *what, expect_t e, int rc, KSI_PolicyVerificationResult *r) {
	int got_ok = rc == KSI_OK && r && r->finalResult.resultCode == KSI_VER_RES_OK;
	int got_fail = rc == KSI_OK && r && r->finalResult.resultCode == KSI_VER_RES_FAIL;
	int code = (rc == KSI_OK && r) ? (int)r->finalResult.errorCode : -1;
	const char *got = got_ok ? "OK" : got_fail ? "FAIL" : rc != KSI_OK ? "error" : "NA";
	vf_outcome("%s:expect-%s:got-%s", what, XNAME[e.cls], got);
	vf_obs("rc=%x code=%x", rc, code);
	switch (e.cls) {
		case X_OK: if (!got_ok) vf_fail("bound-not-ok", "%s: calendar root is bound to the anchor but verdict is %s (rc 0x%x, error 0x%x)", what, got, rc, code); break;
		case X_FAIL:
			if (!got_fail || code != e.code) vf_fail("contradiction-not-fail", "%s: anchor contradicts the signature: expected FAIL 0x%x, got %s (rc 0x%x, error 0x%x)", what, e.code, got, rc, code);
			break;
		case X_INCONCLUSIVE:
			if (got_ok) vf_fail("unbound-ok", "%s: anchor missing / extension forbidden, unavailable or failed, but verdict OK", what);
			else if (got_fail) vf_fail("inconclusive-reported-fail", "%s: anchor missing / extension forbidden, unavailable or failed must be inconclusive, got FAIL 0x%x", what, code);
			break;
		case X_SILENT: break;
		default: if (got_ok) vf_fail("unbound-ok", "%s: verdict OK although the signature is not internally consistent / not bound to the anchor", what); break;
	}
}

#define INT_FAIL_CODE 0x20a   /* INT-10: what fx_make_sig(broken) violates */

/* ------------------------------------------------------------------ user publication policy */
enum { U_ABSENT = 0, U_SIGPUB_SAME, U_SIGPUB_OTHERHASH, U_LATER_CORRECT, U_LATER_WRONGHASH, U_EARLIER, U_AT_AGGR_TIME, U_NKIND };
static const char *UNAME[U_NKIND] = {"absent", "sigpub-same", "sigpub-otherhash", "later-correct", "later-wronghash", "earlier", "at-aggr-time"};

static expect_t expect_extension(int ext, int anchor_hash_ok) {
	expect_t e = {X_INCONCLUSIVE, 0};
	switch (ext) {
		case FXE_CORRECT: if (anchor_hash_ok) e.cls = X_OK; else { e.cls = X_FAIL; e.code = KSI_VER_ERR_PUB_1; } break;
		case FXE_OTHER_ROOT: case FXE_RIGHT_ALTERED: e.cls = X_FAIL; e.code = KSI_VER_ERR_PUB_1; break;   /* reply root differs from the published hash */
		case FXE_OTHER_INPUT: e.cls = X_NOT_OK; break;   /* root differs as well: PUB-01 or PUB-03, whichever is evaluated first */
		case FXE_OTHER_AGGR_TIME: e.cls = X_NOT_OK; break; /* refused as a failed extension or reported as PUB-02 */
		case FXE_RIGHT_EXTRA: case FXE_RIGHT_EXTRA_TOP: e.cls = X_NOT_OK; break;   /* other root, other shape: a refused extension or a contradiction */
		case FXE_LEFT_AS_RIGHT_LOW: case FXE_LEFT_AS_RIGHT_MID: case FXE_LEFT_AS_RIGHT_HIGH: e.cls = X_NOT_OK; break;   /* likewise */
		case FXE_NO_AGGR_TIME_FIELD: e.cls = X_NOT_OK; break;   /* a chain for another aggregation time (its publication time): refused or PUB-02 */
		default: e.cls = X_INCONCLUSIVE; break;           /* error status, error PDU, bad MAC, wrong id, no reply */
	}
	return e;
}

static void user_pub_case(const KSI_Policy *policy, const char *pname, int form, int broken, int ukind, int allowed, int ext) {
	KSI_CTX *ctx;
	rsig s;
	vbuf sb;
	KSI_Signature *sig = NULL;
	KSI_VerificationContext vc;
	KSI_PolicyVerificationResult *res = NULL;
	KSI_PublicationData *pd = NULL;
	unsigned char h[RH_MAX_IMPRINT];
	size_t hl = 0;
	uint64_t ut = 0;
	expect_t e = {X_NOT_OK, 0};
	int rc, net_before;
	fx_pki();
	fx_server_install(ext);
	ctx = fx_ctx(1, 0);
	fx_make_sig(&s, form, broken, &fx_auth_cert);
	vb_init(&sb);
	rs_serialize(&s, &sb);
	if (KSI_Signature_parseWithPolicy(ctx, sb.p, sb.n, KSI_VERIFICATION_POLICY_EMPTY, NULL, &sig) != KSI_OK) vf_harness_error("fixture signature refused");
	rs_aggr_root(&s, 0, FXS.root, &FXS.root_len, NULL);
	switch (ukind) {
		case U_SIGPUB_SAME: ut = s.pub_time; memcpy(h, s.pub_hash, s.pub_hash_len); hl = s.pub_hash_len; break;
		case U_SIGPUB_OTHERHASH: ut = s.pub_time; memcpy(h, s.pub_hash, s.pub_hash_len); hl = s.pub_hash_len; h[hl - 1] ^= 1; break;
		case U_LATER_CORRECT: ut = FX_P1; fx_cal_root(FXS.root, FXS.root_len, FX_P1, h, &hl); break;
		case U_LATER_WRONGHASH: ut = FX_P1; fx_cal_root(FXS.root, FXS.root_len, FX_P1, h, &hl); h[4] ^= 1; break;
		case U_EARLIER: ut = FX_PE; hl = ref_fake_imprint(RH_SHA256, 5, h); break;
		case U_AT_AGGR_TIME: ut = FX_T0; hl = ref_fake_imprint(RH_SHA256, 6, h); break;
		default: break;
	}
	if (ukind != U_ABSENT) pd = fx_pubdata(ctx, ut, h, hl);
	KSI_VerificationContext_init(&vc, ctx);
	vc.signature = sig; vc.userPublication = pd; vc.extendingAllowed = allowed;
	net_before = (int)(sn_calls + fc_calls);
	rc = KSI_SignatureVerifier_verify(policy, &vc, &res);
	vf_count("impl_calls", 1);
	/* reference decision */
	if (broken) { e.cls = X_NOT_OK; }
	else if (ukind == U_ABSENT) { e.cls = X_INCONCLUSIVE; }
	else if (form == 2 && ut == s.pub_time) {
		if (ukind == U_SIGPUB_SAME) e.cls = X_OK; else { e.cls = X_FAIL; e.code = KSI_VER_ERR_PUB_4; }
	} else if (ut <= FX_T0) { e.cls = X_INCONCLUSIVE; }           /* a publication not later than the aggregation time cannot anchor the signature */
	else if (!allowed) { e.cls = X_INCONCLUSIVE; }
	else e = expect_extension(ext, ukind == U_LATER_CORRECT);
	/* under the general policy an inconclusive user-publication result is not rescued by another anchor, a bound one is OK */
	{
		char what[96];
		snprintf(what, sizeof what, "%s:userpub", pname);
		judge(what, e, rc, res);
	}
	if (!allowed && (sn_calls + fc_calls) != net_before) vf_fail("network-when-forbidden", "%s: extending not allowed but %ld transport calls were made", pname, sn_calls + fc_calls - net_before);
	KSI_PolicyVerificationResult_free(res);
	KSI_VerificationContext_clean(&vc);
	KSI_PublicationData_free(pd);
	KSI_Signature_free(sig);
	KSI_CTX_free(ctx);
	vb_free(&sb);
}

/* ------------------------------------------------------------------ publications file policy */
enum { F_HAS_SIGPUB = 0, F_SIGPUB_OTHERHASH, F_LATER_CORRECT, F_LATER_WRONGHASH, F_ONLY_EARLIER, F_EMPTY, F_NKIND };
static const char *FNAME[F_NKIND] = {"has-sigpub", "sigpub-otherhash", "later-correct", "later-wronghash", "only-earlier", "empty"};
enum { SRC_USER = 0, SRC_DOWNLOAD, SRC_DOWNLOAD_ROGUE, SRC_HTTP404, SRC_CONNFAIL, SRC_DL_ATTR_ABSENT, SRC_DL_ATTR_ABSENT_FIRST, SRC_DL_ATTR_WRONG, SRC_NSRC };
static const char *SNAME[SRC_NSRC] = {"user-supplied", "download", "download-rogue-signed", "http-404", "connection-failure",
                                      "download-constraint-on-absent-attribute", "download-first-constraint-on-absent-attribute", "download-second-constraint-differs"};
/* the publications file is signed by the right certificate, but the context asks for more than that certificate has:
 * an attribute the subject does not carry (organizational unit, after or before the e-mail constraint that matches),
 * or an organization of another name */
static void constrain(KSI_CTX *ctx, int src) {
	static KSI_CertConstraint c[3];
	memset(c, 0, sizeof c);
	if (src == SRC_DL_ATTR_ABSENT) { c[0].oid = KSI_CERT_EMAIL; c[0].val = FX_EMAIL; c[1].oid = "2.5.4.11"; c[1].val = FX_EMAIL; }
	else if (src == SRC_DL_ATTR_ABSENT_FIRST) { c[0].oid = "2.5.4.11"; c[0].val = "Verif Test"; c[1].oid = KSI_CERT_EMAIL; c[1].val = FX_EMAIL; }
	else if (src == SRC_DL_ATTR_WRONG) { c[0].oid = KSI_CERT_EMAIL; c[0].val = FX_EMAIL; c[1].oid = KSI_CERT_ORGANIZATION; c[1].val = "Verif Tes"; }
	else return;
	if (KSI_CTX_setDefaultPubFileCertConstraints(ctx, c) != KSI_OK) vf_harness_error("setDefaultPubFileCertConstraints");
}

static void pubfile_case(const KSI_Policy *policy, const char *pname, int form, int broken, int fkind, int src, int allowed, int ext) {
	KSI_CTX *ctx;
	rsig s;
	vbuf sb, pf;
	KSI_Signature *sig = NULL;
	KSI_VerificationContext vc;
	KSI_PolicyVerificationResult *res = NULL;
	KSI_PublicationsFile *upf = NULL;
	uint64_t times[3];
	unsigned char hashes[3][RH_MAX_IMPRINT];
	size_t hlens[3];
	int np = 0, rc, net_before, file_usable;
	expect_t e = {X_NOT_OK, 0};
	fx_pki();
	fx_server_install(ext);
	ctx = fx_ctx(1, src != SRC_USER);
	constrain(ctx, src);
	fx_make_sig(&s, form, broken, &fx_auth_cert);
	vb_init(&sb); vb_init(&pf);
	rs_serialize(&s, &sb);
	if (KSI_Signature_parseWithPolicy(ctx, sb.p, sb.n, KSI_VERIFICATION_POLICY_EMPTY, NULL, &sig) != KSI_OK) vf_harness_error("fixture signature refused");
	rs_aggr_root(&s, 0, FXS.root, &FXS.root_len, NULL);
	/* an early publication is always present except in the empty file */
	if (fkind != F_EMPTY) { times[np] = FX_PE; hlens[np] = ref_fake_imprint(RH_SHA256, 11, hashes[np]); np++; }
	switch (fkind) {
		case F_HAS_SIGPUB: case F_SIGPUB_OTHERHASH:
			times[np] = FX_P0; fx_cal_root(FXS.root, FXS.root_len, FX_P0, hashes[np], &hlens[np]);
			if (fkind == F_SIGPUB_OTHERHASH) hashes[np][3] ^= 1;
			np++; break;
		case F_LATER_CORRECT: case F_LATER_WRONGHASH:
			times[np] = FX_P1; fx_cal_root(FXS.root, FXS.root_len, FX_P1, hashes[np], &hlens[np]);
			if (fkind == F_LATER_WRONGHASH) hashes[np][3] ^= 1;
			np++; break;
		default: break;
	}
	fx_make_pubfile(&pf, np, times, hashes, hlens, 0, NULL, src == SRC_DOWNLOAD_ROGUE ? &fx_auth_cert_otherkey : &fx_pub_signer);
	KSI_VerificationContext_init(&vc, ctx);
	vc.signature = sig; vc.extendingAllowed = allowed;
	if (src == SRC_USER) {
		if (KSI_PublicationsFile_parse(ctx, pf.p, pf.n, &upf) != KSI_OK) vf_harness_error("fixture publications file refused");
		vc.userPublicationsFile = upf;
	} else {
		vb_put(&FXS.pubfile, pf.p, pf.n);
		if (src == SRC_HTTP404) { FXS.pubfile_mode = 1; srv_http_code = 404; }
		if (src == SRC_CONNFAIL) { FXS.pubfile_mode = 2; srv_http_curl_code = 7; }
	}
	net_before = (int)(sn_calls);
	rc = KSI_SignatureVerifier_verify(policy, &vc, &res);
	vf_count("impl_calls", 1);
	/* reference decision */
	file_usable = (src == SRC_USER || src == SRC_DOWNLOAD);
	if (broken) e.cls = X_NOT_OK;
	else if (!file_usable) e.cls = X_INCONCLUSIVE;               /* not obtainable or not PKI-trusted: no anchor */
	else if (form == 2 && (fkind == F_HAS_SIGPUB || fkind == F_SIGPUB_OTHERHASH)) {
		/* the file has a record at the signature's publication time */
		if (fkind == F_HAS_SIGPUB) e.cls = X_OK; else { e.cls = X_FAIL; e.code = KSI_VER_ERR_PUB_5; }
	} else {
		/* extension towards the earliest publication after the aggregation time, if any */
		int later = (fkind == F_HAS_SIGPUB || fkind == F_SIGPUB_OTHERHASH || fkind == F_LATER_CORRECT || fkind == F_LATER_WRONGHASH);
		if (!later) e.cls = X_INCONCLUSIVE;
		else if (!allowed) e.cls = X_INCONCLUSIVE;
		else e = expect_extension(ext, fkind == F_HAS_SIGPUB || fkind == F_LATER_CORRECT);
	}
	{
		char what[96];
		snprintf(what, sizeof what, "%s:pubfile:%s", pname, SNAME[src]);
		judge(what, e, rc, res);
	}
	if (!allowed && sn_calls != net_before) vf_fail("network-when-forbidden", "%s: extending not allowed but the extender transport was used (%ld socket calls)", pname, sn_calls - net_before);
	KSI_PolicyVerificationResult_free(res);
	KSI_VerificationContext_clean(&vc);
	KSI_PublicationsFile_free(upf);
	KSI_Signature_free(sig);
	KSI_CTX_free(ctx);
	vb_free(&sb); vb_free(&pf);
}

/* ------------------------------------------------------------------ key-based policy */
enum { K_ABSENT = 0, K_ENDS_BEFORE, K_ENDS_AT, K_CONTAINS, K_STARTS_AT, K_STARTS_AFTER, K_WRONG_KEY, K_BAD_SIGNATURE, K_STARTS_2106, K_ENDS_2106, K_NKIND };
static const char *KNAME[K_NKIND] = {"cert-absent", "ends-before", "ends-exactly-at", "contains", "starts-exactly-at", "starts-after", "wrong-key", "altered-pki-signature", "starts-after-2^32", "ends-after-2^32"};

static int g_key_noaggr;   /* the signature's calendar chain has no aggregation time element (publication time = aggregation time) */
static void key_case(const KSI_Policy *policy, const char *pname, int form, int broken, int kkind, int src) {
	KSI_CTX *ctx;
	rsig s;
	vbuf sb, pf;
	KSI_Signature *sig = NULL;
	KSI_VerificationContext vc;
	KSI_PolicyVerificationResult *res = NULL;
	KSI_PublicationsFile *upf = NULL;
	rk_cert cert;
	const rk_cert *certs[1];
	uint64_t times[1] = {FX_PE};
	unsigned char hashes[1][RH_MAX_IMPRINT];
	size_t hlens[1];
	int rc, ncerts = 1, file_usable;
	expect_t e = {X_NOT_OK, 0};
	int64_t nb = (int64_t)FX_T0 - 500, na = (int64_t)FX_T0 + 500;
	fx_pki();
	fx_server_install(FXE_NO_REPLY);
	ctx = fx_ctx(0, src != SRC_USER);
	constrain(ctx, src);
	switch (kkind) {
		case K_ENDS_BEFORE: na = (int64_t)FX_T0 - 1; break;
		case K_ENDS_AT: na = (int64_t)FX_T0; break;
		case K_STARTS_AT: nb = (int64_t)FX_T0; break;
		case K_STARTS_AFTER: nb = (int64_t)FX_T0 + 1; break;
		/* validity bounds beyond 2^32 seconds (year 2106 and later): a window that starts only then / a window that lasts until then */
		case K_STARTS_2106: nb = 4294967296LL + 1000; na = 4294967296LL + 2000000000LL; break;   /* reduced modulo 2^32 the window would contain the aggregation time */
		case K_ENDS_2106: na = 4294967296LL + 500; break;
		default: break;
	}
	/* certificate with the chosen validity window; for "wrong key" the listed certificate carries another key
	 * under the id the authentication record refers to */
	rk_issue(&cert, kkind == K_WRONG_KEY ? 1 : 0, "calendar@verif.test", "Verif Calendar Key", nb, na);
	fx_make_sig(&s, form, broken, NULL);
	if (g_key_noaggr && s.has_cal) {
		/* published in the second it was aggregated in: the calendar chain need not (and here does not) carry an aggregation time */
		s.cal_pub_time = s.cal_aggr_time;
		s.cal_has_aggr = 0;
		if (rs_fix(&s, RS_FIX_CALSHAPE | RS_FIX_TAIL) != 0) vf_harness_error("fixture: calendar chain without aggregation time");
	}
	if (form == 3) {
		rk_cert signer;
		rk_issue(&signer, 0, "calendar@verif.test", "Verif Calendar Key", nb, na);
		rk_sign_auth_record(&s, &signer);
		memcpy(s.auth_certid, cert.id, 4);        /* the record names the listed certificate */
		if (kkind == K_BAD_SIGNATURE) s.auth_sig[10] ^= 1;
		rk_cert_free(&signer);
	}
	vb_init(&sb); vb_init(&pf);
	rs_serialize(&s, &sb);
	if (KSI_Signature_parseWithPolicy(ctx, sb.p, sb.n, KSI_VERIFICATION_POLICY_EMPTY, NULL, &sig) != KSI_OK) vf_harness_error("fixture signature refused");
	hlens[0] = ref_fake_imprint(RH_SHA256, 11, hashes[0]);
	certs[0] = &cert;
	if (kkind == K_ABSENT) ncerts = 0;
	fx_make_pubfile(&pf, 1, times, hashes, hlens, ncerts, certs, src == SRC_DOWNLOAD_ROGUE ? &fx_auth_cert_otherkey : &fx_pub_signer);
	KSI_VerificationContext_init(&vc, ctx);
	vc.signature = sig;
	if (src == SRC_USER) {
		if (KSI_PublicationsFile_parse(ctx, pf.p, pf.n, &upf) != KSI_OK) vf_harness_error("fixture publications file refused");
		vc.userPublicationsFile = upf;
	} else {
		vb_put(&FXS.pubfile, pf.p, pf.n);
		if (src == SRC_HTTP404) { FXS.pubfile_mode = 1; srv_http_code = 404; }
		if (src == SRC_CONNFAIL) { FXS.pubfile_mode = 2; srv_http_curl_code = 7; }
	}
	rc = KSI_SignatureVerifier_verify(policy, &vc, &res);
	vf_count("impl_calls", 1);
	file_usable = (src == SRC_USER || src == SRC_DOWNLOAD);
	if (broken) e.cls = X_NOT_OK;
	else if (form != 3) e.cls = X_INCONCLUSIVE;                   /* no calendar chain or no authentication record */
	else if (!file_usable) e.cls = X_INCONCLUSIVE;
	else switch (kkind) {
		case K_ABSENT: e.cls = X_INCONCLUSIVE; break;
		case K_ENDS_BEFORE: case K_STARTS_AFTER: case K_STARTS_2106: e.cls = X_FAIL; e.code = KSI_VER_ERR_KEY_3; break;
		case K_WRONG_KEY: case K_BAD_SIGNATURE: e.cls = X_FAIL; e.code = KSI_VER_ERR_KEY_2; break;
		default: e.cls = X_OK; break;                                /* window is inclusive at both ends */
	}
	{
		char what[96];
		snprintf(what, sizeof what, "%s:key:%s", pname, SNAME[src]);
		judge(what, e, rc, res);
	}
	KSI_PolicyVerificationResult_free(res);
	KSI_VerificationContext_clean(&vc);
	KSI_PublicationsFile_free(upf);
	KSI_Signature_free(sig);
	KSI_CTX_free(ctx);
	rk_cert_free(&cert);
	vb_free(&sb); vb_free(&pf);
}

/* ------------------------------------------------------------------ calendar-based policy */
static void calendar_case(int form, int broken, int ext) {
	KSI_CTX *ctx;
	rsig s;
	vbuf sb;
	KSI_Signature *sig = NULL;
	KSI_VerificationContext vc;
	KSI_PolicyVerificationResult *res = NULL;
	expect_t e = {X_NOT_OK, 0};
	int rc;
	fx_pki();
	fx_server_install(ext);
	ctx = fx_ctx(1, 0);
	fx_make_sig(&s, form, broken, &fx_auth_cert);
	vb_init(&sb);
	rs_serialize(&s, &sb);
	if (KSI_Signature_parseWithPolicy(ctx, sb.p, sb.n, KSI_VERIFICATION_POLICY_EMPTY, NULL, &sig) != KSI_OK) vf_harness_error("fixture signature refused");
	rs_aggr_root(&s, 0, FXS.root, &FXS.root_len, NULL);
	KSI_VerificationContext_init(&vc, ctx);
	vc.signature = sig;
	rc = KSI_SignatureVerifier_verify(KSI_VERIFICATION_POLICY_CALENDAR_BASED, &vc, &res);
	vf_count("impl_calls", 1);
	if (broken) e.cls = X_NOT_OK;
	else switch (ext) {
		case FXE_CORRECT: e.cls = X_OK; break;
		case FXE_OTHER_ROOT:
			/* a differing later sibling changes the root: contradiction only where the signature pins the root (publication record) */
			if (form == 2) { e.cls = X_FAIL; e.code = KSI_VER_ERR_CAL_1; } else e.cls = X_OK;
			break;
		case FXE_RIGHT_ALTERED:
			if (form == 0) e.cls = X_OK;                                 /* nothing to compare with */
			else if (form == 2) { e.cls = X_FAIL; e.code = KSI_VER_ERR_CAL_1; }
			else { e.cls = X_FAIL; e.code = KSI_VER_ERR_CAL_4; }
			break;
		case FXE_OTHER_INPUT: e.cls = X_NOT_OK; break;                   /* CAL-02, or CAL-01 first when a publication record pins the root */
		case FXE_OTHER_AGGR_TIME: e.cls = X_NOT_OK; break;               /* refused as failed extension or CAL-03 */
		case FXE_NO_AGGR_TIME_FIELD: e.cls = X_NOT_OK; break;            /* the reply's aggregation time defaults to its publication time: not the signature's */
		case FXE_RIGHT_EXTRA: case FXE_RIGHT_EXTRA_TOP:
			/* surplus right link: right links differ (CAL-04), root differs, or the extension is refused. A signature without a calendar
			 * chain has no right links and no root to compare: the statement is silent about the (malformed) shape of such a reply */
			e.cls = form == 0 ? X_SILENT : X_NOT_OK;
			break;
		case FXE_LEFT_AS_RIGHT_LOW: case FXE_LEFT_AS_RIGHT_MID: case FXE_LEFT_AS_RIGHT_HIGH:
			/* another shape: a right link the signature's chain does not have (CAL-04), another root, another time - never the anchor of this signature */
			e.cls = form == 0 ? X_SILENT : X_NOT_OK;
			break;
		default: e.cls = X_INCONCLUSIVE; break;
	}
	judge("calendar", e, rc, res);
	KSI_PolicyVerificationResult_free(res);
	KSI_VerificationContext_clean(&vc);
	KSI_Signature_free(sig);
	KSI_CTX_free(ctx);
	vb_free(&sb);
}

/* ------------------------------------------------------------------ one context, anchors changed between two verifications
 * The anchor that counts is the one the context is configured with NOW: a publications file downloaded from the former URL, or kept
 * beyond its cache lifetime, and the former extender no longer bind a signature. */
static void build_file(vbuf *pf, int with_sigpub) {
	uint64_t times[2];
	unsigned char hashes[2][RH_MAX_IMPRINT];
	size_t hlens[2];
	int np = 0;
	times[np] = FX_PE; hlens[np] = ref_fake_imprint(RH_SHA256, 11, hashes[np]); np++;
	if (with_sigpub) { times[np] = FX_P0; fx_cal_root(FXS.root, FXS.root_len, FX_P0, hashes[np], &hlens[np]); np++; }
	vb_reset(pf);
	fx_make_pubfile(pf, np, times, hashes, hlens, 0, NULL, &fx_pub_signer);
}
static int verify_now(KSI_CTX *ctx, KSI_Signature *sig, const KSI_Policy *policy, int *code) {
	KSI_VerificationContext vc;
	KSI_PolicyVerificationResult *res = NULL;
	int rc, r = -1;
	KSI_VerificationContext_init(&vc, ctx);
	vc.signature = sig;
	rc = KSI_SignatureVerifier_verify(policy, &vc, &res);
	vf_count("impl_calls", 1);
	if (rc == KSI_OK && res != NULL) { r = (int)res->finalResult.resultCode; *code = (int)res->finalResult.errorCode; }
	KSI_PolicyVerificationResult_free(res);
	KSI_VerificationContext_clean(&vc);
	return r;
}
static void part_reuse(void) {
	int how, first_good, pol;
	/* publications file: how 0 = the publications URL is changed, 1 = same URL, the cache lifetime passes, 2 = same URL, the file is set aside with KSI_CTX_setPublicationsFile(NULL) */
	for (pol = 0; pol < 2; pol++) for (how = 0; how < 4; how++) for (first_good = 0; first_good < 2; first_good++) {
		KSI_CTX *ctx;
		rsig s;
		vbuf sb, good, bad;
		KSI_Signature *sig = NULL;
		const KSI_Policy *policy = pol ? KSI_VERIFICATION_POLICY_GENERAL : KSI_VERIFICATION_POLICY_PUBLICATIONS_FILE_BASED;
		int r1, r2, c1 = 0, c2 = 0;
		long before;
		if (!vf_case_begin("reuse:pubfile:%s:%s:%s-file-first", pol ? "general" : "pubfile-policy", how == 0 ? "url-changed" : how == 1 ? "cache-expired" : how == 2 ? "file-set-aside" : "cache-lifetime-zero", first_good ? "binding" : "other")) continue;
		fx_pki();
		fx_server_install(FXE_NO_REPLY);
		ctx = fx_ctx(0, 1);
		/* how 3: a cache lifetime of 0 seconds - the file is fetched for every use, also within the same second */
		if (how == 3 && KSI_CTX_setOption(ctx, KSI_OPT_PUBFILE_CACHE_TTL_SECONDS, (void *)(size_t)0) != KSI_OK) vf_harness_error("cache lifetime option");
		fx_make_sig(&s, 2, 0, &fx_auth_cert);
		vb_init(&sb); vb_init(&good); vb_init(&bad);
		rs_serialize(&s, &sb);
		if (KSI_Signature_parseWithPolicy(ctx, sb.p, sb.n, KSI_VERIFICATION_POLICY_EMPTY, NULL, &sig) != KSI_OK) vf_harness_error("fixture signature refused");
		rs_aggr_root(&s, 0, FXS.root, &FXS.root_len, NULL);
		build_file(&good, 1); build_file(&bad, 0);
		vb_reset(&FXS.pubfile); vb_putvb(&FXS.pubfile, first_good ? &good : &bad);
		r1 = verify_now(ctx, sig, policy, &c1);
		if (first_good ? r1 != KSI_VER_RES_OK : r1 == KSI_VER_RES_OK) vf_fail(first_good ? "bound-not-ok" : "unbound-ok", "reuse: first verification with the %s file gives result %d (0x%x)", first_good ? "binding" : "other", r1, c1);
		/* the server now holds the other file */
		vb_reset(&FXS.pubfile); vb_putvb(&FXS.pubfile, first_good ? &bad : &good);
		before = FXS.pub_requests;
		if (how == 0) { if (KSI_CTX_setPublicationUrl(ctx, "http://pub2.fx.test/other-publications.bin") != KSI_OK) vf_harness_error("setPublicationUrl"); }
		else if (how == 1) sn_now += 8 * 3600 + 5;     /* default cache lifetime: 8 hours */
		else if (how == 2) { if (KSI_CTX_setPublicationsFile(ctx, NULL) != KSI_OK) vf_harness_error("setPublicationsFile(NULL)"); }
		r2 = verify_now(ctx, sig, policy, &c2);
		vf_outcome("reuse:pubfile:%s:second-%s", how == 0 ? "url-changed" : how == 1 ? "cache-expired" : how == 2 ? "file-set-aside" : "cache-lifetime-zero", r2 == KSI_VER_RES_OK ? "OK" : "not-OK");
		if (FXS.pub_requests == before) vf_fail("stale-publications-file", "reuse: after %s no publications file was fetched for the second verification (result %d)", how == 0 ? "the publications URL was changed" : how == 1 ? "the cache lifetime had passed" : "the cached file was set aside", r2);
		if (first_good && r2 == KSI_VER_RES_OK) vf_fail("unbound-ok", "reuse: the context's publications file no longer lists the signature's publication (%s) but the verdict is still OK", how == 0 ? "URL changed" : how == 1 ? "cache lifetime passed" : "file set aside");
		if (!first_good && r2 != KSI_VER_RES_OK) vf_fail("bound-not-ok", "reuse: the context's publications file now lists the signature's publication (%s) but the verdict is %d (0x%x)", how == 0 ? "URL changed" : how == 1 ? "cache lifetime passed" : "file set aside", r2, c2);
		KSI_Signature_free(sig);
		KSI_CTX_free(ctx);
		vb_free(&sb); vb_free(&good); vb_free(&bad);
		vf_case_end(1);
	}
	/* extender: the context is pointed at another extender (other URL, other credentials) whose calendar does not contain the signature */
	for (first_good = 0; first_good < 2; first_good++) {
		KSI_CTX *ctx;
		rsig s;
		vbuf sb;
		KSI_Signature *sig = NULL;
		int r1, r2, c1 = 0, c2 = 0;
		if (!vf_case_begin("reuse:extender:%s-extender-first", first_good ? "honest" : "other-calendar")) continue;
		fx_pki();
		fx_server_install(first_good ? FXE_CORRECT : FXE_OTHER_ROOT);
		ctx = fx_ctx(1, 0);
		fx_make_sig(&s, 2, 0, &fx_auth_cert);
		vb_init(&sb);
		rs_serialize(&s, &sb);
		if (KSI_Signature_parseWithPolicy(ctx, sb.p, sb.n, KSI_VERIFICATION_POLICY_EMPTY, NULL, &sig) != KSI_OK) vf_harness_error("fixture signature refused");
		rs_aggr_root(&s, 0, FXS.root, &FXS.root_len, NULL);
		r1 = verify_now(ctx, sig, KSI_VERIFICATION_POLICY_CALENDAR_BASED, &c1);
		if (first_good ? r1 != KSI_VER_RES_OK : r1 == KSI_VER_RES_OK) vf_fail(first_good ? "bound-not-ok" : "unbound-ok", "reuse: first calendar-based verification gives result %d (0x%x)", r1, c1);
		FXS.ext_behaviour = first_good ? FXE_OTHER_ROOT : FXE_CORRECT;
		if (KSI_CTX_setExtender(ctx, "ksi+tcp://ext2.fx.test:3331", FX_LOGIN, FX_KEY) != KSI_OK) vf_harness_error("setExtender");
		r2 = verify_now(ctx, sig, KSI_VERIFICATION_POLICY_CALENDAR_BASED, &c2);
		vf_outcome("reuse:extender:second-%s", r2 == KSI_VER_RES_OK ? "OK" : "not-OK");
		if (strcmp(sn_last_host, "ext2.fx.test") != 0) vf_fail("stale-extender", "reuse: after KSI_CTX_setExtender the second verification talked to '%s'", sn_last_host);
		if (first_good && r2 == KSI_VER_RES_OK) vf_fail("unbound-ok", "reuse: the extender now configured does not reproduce the signature's publication but the verdict is still OK");
		if (!first_good && r2 != KSI_VER_RES_OK) vf_fail("bound-not-ok", "reuse: the extender now configured reproduces the signature's publication but the verdict is %d (0x%x)", r2, c2);
		KSI_Signature_free(sig);
		KSI_CTX_free(ctx);
		vb_free(&sb);
		vf_case_end(1);
	}
}

static void run(void) {
	int form, broken, u, allowed, ext, f, src, k, pol;
	/* user publication under its own policy and under the general policy */
	for (pol = 0; pol < 2; pol++) for (form = 0; form < 4; form++) for (broken = 0; broken < 3; broken++) for (u = 0; u < U_NKIND; u++) for (allowed = 0; allowed < 2; allowed++) for (ext = 0; ext < FXE_NBEH; ext++) {
		if ((u == U_SIGPUB_SAME || u == U_SIGPUB_OTHERHASH) && form != 2) continue;
		if (pol == 1 && u == U_ABSENT) continue;                         /* without a user publication the general policy consults the other anchors */
		if (!VF_THOROUGH && ext != FXE_CORRECT && (u != U_LATER_CORRECT || !allowed || broken)) continue;
		if (VF_THOROUGH && ext != FXE_CORRECT && !(u == U_LATER_CORRECT || u == U_LATER_WRONGHASH)) continue;
		if (!vf_case_begin("userpub:%s:form%d:broken%d:%s:allowed%d:ext-%s", pol ? "general" : "own", form, broken, UNAME[u], allowed, FXE_NAME[ext])) continue;
		user_pub_case(pol ? KSI_VERIFICATION_POLICY_GENERAL : KSI_VERIFICATION_POLICY_USER_PUBLICATION_BASED, pol ? "general" : "userpub-policy", form, broken, u, allowed, ext);
		vf_case_end(1);
	}
	/* publications file */
	for (form = 0; form < 4; form++) for (broken = 0; broken < 3; broken++) for (f = 0; f < F_NKIND; f++) for (src = 0; src < SRC_NSRC; src++) for (allowed = 0; allowed < 2; allowed++) for (ext = 0; ext < FXE_NBEH; ext++) {
		if (!VF_THOROUGH && ext != FXE_CORRECT && (f != F_LATER_CORRECT || !allowed || broken || src > SRC_DOWNLOAD)) continue;
		if (VF_THOROUGH && ext != FXE_CORRECT && !(f == F_LATER_CORRECT || f == F_LATER_WRONGHASH || f == F_HAS_SIGPUB)) continue;
		if (src >= SRC_DOWNLOAD_ROGUE && ext != FXE_CORRECT) continue;
		if (!vf_case_begin("pubfile:form%d:broken%d:%s:%s:allowed%d:ext-%s", form, broken, FNAME[f], SNAME[src], allowed, FXE_NAME[ext])) continue;
		pubfile_case(KSI_VERIFICATION_POLICY_PUBLICATIONS_FILE_BASED, "pubfile-policy", form, broken, f, src, allowed, ext);
		vf_case_end(1);
	}
	/* the same scenarios under the general policy without a user publication: the publications file is consulted first,
	 * the fixture files list no certificate, so the key-based alternative stays inconclusive */
	for (form = 0; form < 4; form++) for (broken = 0; broken < 3; broken++) for (f = 0; f < F_NKIND; f++) for (src = 0; src < SRC_NSRC; src++) for (allowed = 0; allowed < 2; allowed++) for (ext = 0; ext < FXE_NBEH; ext++) {
		if (ext != FXE_CORRECT && (f != F_LATER_CORRECT || !allowed || broken || src > SRC_DOWNLOAD)) continue;
		if (!VF_THOROUGH && src > SRC_DOWNLOAD) continue;
		if (!vf_case_begin("general-pubfile:form%d:broken%d:%s:%s:allowed%d:ext-%s", form, broken, FNAME[f], SNAME[src], allowed, FXE_NAME[ext])) continue;
		pubfile_case(KSI_VERIFICATION_POLICY_GENERAL, "general", form, broken, f, src, allowed, ext);
		vf_case_end(1);
	}
	/* key based */
	for (form = 0; form < 4; form++) for (broken = 0; broken < 3; broken++) for (k = 0; k < K_NKIND; k++) for (src = 0; src < SRC_NSRC; src++) {
		if (!vf_case_begin("key:form%d:broken%d:%s:%s", form, broken, KNAME[k], SNAME[src])) continue;
		key_case(KSI_VERIFICATION_POLICY_KEY_BASED, "key-policy", form, broken, k, src);
		vf_case_end(1);
	}
	/* the same for a signature published in the second it was aggregated in (no aggregation time element in its calendar chain) */
	g_key_noaggr = 1;
	for (broken = 0; broken < 2; broken++) for (k = 0; k < K_NKIND; k++) for (src = 0; src < 2; src++) {   /* (the shape defect of broken = 2 would be repaired by rebuilding the chain) */
		if (!vf_case_begin("key-noaggr:broken%d:%s:%s", broken, KNAME[k], SNAME[src])) continue;
		key_case(KSI_VERIFICATION_POLICY_KEY_BASED, "key-policy", 3, broken, k, src);
		key_case(KSI_VERIFICATION_POLICY_GENERAL, "general-policy", 3, broken, k, src);
		vf_case_end(1);
	}
	g_key_noaggr = 0;
	/* the same validity windows with the process in a time zone east / west of UTC: certificate times are UTC whatever the zone */
	for (k = 0; k < K_NKIND; k++) for (src = 0; src < 2; src++) {
		static const char *TZS[2] = {"EET-2", "PST8"};
		if (!vf_case_begin("key-tz:%s:%s:%s", TZS[src], KNAME[k], SNAME[0])) continue;
		setenv("TZ", TZS[src], 1); tzset();
		key_case(KSI_VERIFICATION_POLICY_KEY_BASED, "key-policy", 3, 0, k, 0);
		setenv("TZ", "UTC", 1); tzset();
		vf_outcome("key:time-zone-%s", TZS[src]);
		vf_case_end(1);
	}
	/* under the general policy (no user publication; the file holds only an earlier publication and extending is not allowed,
	 * so the publications-file alternative is inconclusive and the key-based one decides) */
	for (form = 0; form < 4; form++) for (broken = 0; broken < 3; broken++) for (k = 0; k < K_NKIND; k++) for (src = 0; src < 2; src++) {
		if (!vf_case_begin("general-key:form%d:broken%d:%s:%s", form, broken, KNAME[k], SNAME[src])) continue;
		key_case(KSI_VERIFICATION_POLICY_GENERAL, "general", form, broken, k, src);
		vf_case_end(1);
	}
	/* calendar based */
	for (form = 0; form < 4; form++) for (broken = 0; broken < 3; broken++) for (ext = 0; ext < FXE_NBEH; ext++) {
		if (!vf_case_begin("calendar:form%d:broken%d:ext-%s", form, broken, FXE_NAME[ext])) continue;
		calendar_case(form, broken, ext);
		vf_case_end(1);
	}
	part_reuse();
}

int main(int argc, char **argv) {
	vf_driver d = {"C04", run};
	return vf_main(argc, argv, &d);
}
