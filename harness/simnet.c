/* simnet.c - simulated socket layer, virtual clock and fake libcurl (see simnet.h).
 * The functions below REPLACE libc's / libcurl's in the driver executable (symbols defined in
 * the executable take precedence), so every environment answer is decided by the harness. */
#define _GNU_SOURCE
#include <sys/time.h>
#include "simnet.h"
#include <stdlib.h>
#include <string.h>
#include <stdarg.h>
#include <errno.h>
#include <unistd.h>
#include <poll.h>
#include <netdb.h>
#include <sys/socket.h>
#include <sys/ioctl.h>
#include <sys/syscall.h>
#include <netinet/in.h>
#include <curl/curl.h>

sn_hooks sn;
time_t sn_now = 1700000000;
long sn_time_calls;
int sn_nconn;
sn_conn sn_conns[SN_MAX_CONN];
long sn_calls;
char sn_last_host[256];
char sn_last_port[32];

static struct { char host[256]; int port; } resolved[256];
static int nresolved;

void sn_reset(void) {
	int i;
	for (i = 0; i < SN_MAX_CONN; i++) {
		vb_free(&sn_conns[i].out);
		vb_free(&sn_conns[i].in);
		memset(&sn_conns[i], 0, sizeof sn_conns[i]);
	}
	sn_nconn = 0;
	sn_now = 1700000000;
	sn_time_calls = 0;
	sn_calls = 0;
	nresolved = 0;
	sn_last_host[0] = sn_last_port[0] = 0;
	memset(&sn, 0, sizeof sn);
}

sn_conn *sn_by_fd(int fd) {
	int i = fd - SN_FD_BASE;
	if (i < 0 || i >= SN_MAX_CONN) return NULL;
	if (sn_conns[i].state == SN_FREE) return NULL;
	return &sn_conns[i];
}
sn_conn *sn_last(void) { return sn_nconn > 0 ? &sn_conns[(sn_nconn - 1) % SN_MAX_CONN] : NULL; }

void sn_server_write(sn_conn *c, const void *d, size_t n) { vb_put(&c->in, d, n); }
void sn_server_close(sn_conn *c) { c->peer_closed = 1; }

time_t time(time_t *t) {
	sn_time_calls++;
	if (t) *t = sn_now;
	return sn_now;
}

int socket(int domain, int type, int protocol) {
	sn_conn *c;
	int idx = sn_nconn % SN_MAX_CONN;
	(void)domain; (void)type; (void)protocol;
	sn_calls++;
	c = &sn_conns[idx];
	if (c->state != SN_FREE && c->state != SN_CLOSED_BY_CLIENT) vf_harness_error("simnet: too many live connections");
	vb_free(&c->out); vb_free(&c->in);
	memset(c, 0, sizeof *c);
	c->fd = SN_FD_BASE + idx;
	c->state = SN_CREATED;
	c->seq = sn_nconn++;
	return c->fd;
}

int ioctl(int fd, unsigned long req, ...) {
	va_list ap;
	void *arg;
	sn_conn *c = sn_by_fd(fd);
	va_start(ap, req);
	arg = va_arg(ap, void *);
	va_end(ap);
	if (!c) return (int)syscall(SYS_ioctl, fd, req, arg);
	sn_calls++;
	if (req == FIONBIO) { c->nonblock = arg ? *(int *)arg != 0 : 0; return 0; }
	errno = EINVAL;
	return -1;
}

int setsockopt(int fd, int level, int optname, const void *optval, socklen_t optlen) {
	sn_conn *c = sn_by_fd(fd);
	if (!c) return (int)syscall(SYS_setsockopt, fd, level, optname, optval, optlen);
	sn_calls++;
	if (level == SOL_SOCKET && (optname == SO_RCVTIMEO || optname == SO_SNDTIMEO) && optval != NULL && optlen >= sizeof(struct timeval)) {
		const struct timeval *tv = (const struct timeval *)optval;
		if (optname == SO_RCVTIMEO) { c->rcv_timeo_s = (long)tv->tv_sec; c->rcv_timeo_set = 1; }
		else { c->snd_timeo_s = (long)tv->tv_sec; c->snd_timeo_set = 1; }
	}
	return 0;
}

int getaddrinfo(const char *node, const char *service, const struct addrinfo *hints, struct addrinfo **res) {
	struct addrinfo *ai;
	struct sockaddr_in *sa;
	int rc = 0, idx;
	sn_calls++;
	snprintf(sn_last_host, sizeof sn_last_host, "%s", node ? node : "");
	snprintf(sn_last_port, sizeof sn_last_port, "%s", service ? service : "");
	if (sn.on_resolve) rc = sn.on_resolve(node, service);
	if (rc != 0) return rc;
	idx = nresolved++ & 255;
	snprintf(resolved[idx].host, sizeof resolved[idx].host, "%s", node ? node : "");
	resolved[idx].port = service ? atoi(service) : 0;
	ai = (struct addrinfo *)calloc(1, sizeof *ai);
	sa = (struct sockaddr_in *)calloc(1, sizeof *sa);
	sa->sin_family = AF_INET;
	sa->sin_port = htons((unsigned short)resolved[idx].port);
	sa->sin_addr.s_addr = htonl(0x0a000000u | (unsigned)idx);
	ai->ai_family = AF_INET;
	ai->ai_socktype = SOCK_STREAM;
	/* like the real resolver: the protocol asked for in the hints (the TCP clients skip every result
	 * whose ai_protocol is not IPPROTO_TCP) */
	ai->ai_protocol = (hints && hints->ai_protocol) ? hints->ai_protocol : IPPROTO_TCP;
	ai->ai_addr = (struct sockaddr *)sa;
	ai->ai_addrlen = sizeof *sa;
	*res = ai;
	return 0;
}

void freeaddrinfo(struct addrinfo *ai) {
	while (ai) {
		struct addrinfo *n = ai->ai_next;
		free(ai->ai_addr);
		free(ai);
		ai = n;
	}
}

int connect(int fd, const struct sockaddr *addr, socklen_t len) {
	sn_conn *c = sn_by_fd(fd);
	int r = 0;
	if (!c) return (int)syscall(SYS_connect, fd, addr, len);
	sn_calls++;
	if (addr && addr->sa_family == AF_INET) {
		const struct sockaddr_in *sa = (const struct sockaddr_in *)addr;
		unsigned idx = ntohl(sa->sin_addr.s_addr) & 255u;
		snprintf(c->host, sizeof c->host, "%s", resolved[idx].host);
		c->port = ntohs(sa->sin_port);
	}
	if (sn.on_connect) r = sn.on_connect(c);
	if (r < 0) { errno = -r; return -1; }
	if (r > 0) {
		c->state = SN_CONNECTING;
		c->connect_polls = r - 1;
		if (c->nonblock) { errno = EINPROGRESS; return -1; }
		/* blocking socket: the connect simply completes */
		c->state = SN_CONNECTED;
		return 0;
	}
	c->state = SN_CONNECTED;
	if (c->nonblock) { c->state = SN_CONNECTING; c->connect_polls = 0; errno = EINPROGRESS; return -1; }
	return 0;
}

int poll(struct pollfd *fds, nfds_t n, int timeout) {
	nfds_t i;
	int ready = 0;
	int any_sim = 0;
	for (i = 0; i < n; i++) if (sn_by_fd(fds[i].fd)) any_sim = 1;
	if (!any_sim) return (int)syscall(SYS_poll, fds, n, timeout);
	sn_calls++;
	for (i = 0; i < n; i++) {
		sn_conn *c = sn_by_fd(fds[i].fd);
		short rev = 0;
		fds[i].revents = 0;
		if (!c) continue;
		if (sn.on_poll) {
			int r = sn.on_poll(c, fds[i].events, &rev);
			if (r != -2) {
				if (r < 0) { errno = -r; return -1; }
				fds[i].revents = rev;
				if (rev) ready++;
				continue;
			}
		}
		if (c->state == SN_CONNECTING) {
			if (c->connect_polls > 0) c->connect_polls--;
			else c->state = SN_CONNECTED;
		}
		if (c->state == SN_CONNECTED) {
			if (fds[i].events & POLLOUT) rev |= POLLOUT;
			if ((fds[i].events & POLLIN) && (c->in.n > c->in_off || c->peer_closed)) rev |= POLLIN;
			if (c->peer_reset) rev |= POLLERR;
		}
		fds[i].revents = rev;
		if (rev) ready++;
	}
	return ready;
}

ssize_t send(int fd, const void *buf, size_t len, int flags) {
	sn_conn *c = sn_by_fd(fd);
	long acc = (long)len;
	if (!c) return syscall(SYS_sendto, fd, buf, len, flags, NULL, 0);
	sn_calls++;
	if (c->state != SN_CONNECTED) { errno = ENOTCONN; return -1; }
	if (c->peer_reset) { errno = ECONNRESET; return -1; }
	if (sn.on_send) acc = sn.on_send(c, buf, len);
	if (acc < 0) { errno = (int)-acc; return -1; }
	if ((size_t)acc > len) acc = (long)len;
	vb_put(&c->out, buf, (size_t)acc);
	if (sn.after_send) sn.after_send(c);
	return acc;
}

ssize_t recv(int fd, void *buf, size_t cap, int flags) {
	sn_conn *c = sn_by_fd(fd);
	size_t avail;
	long k;
	if (!c) return syscall(SYS_recvfrom, fd, buf, cap, flags, NULL, NULL);
	sn_calls++;
	if (c->state != SN_CONNECTED) { errno = ENOTCONN; return -1; }
	avail = c->in.n - c->in_off;
	if (sn.on_recv) {
		k = sn.on_recv(c, avail, cap);
	} else if (avail > 0) {
		k = (long)(avail < cap ? avail : cap);
	} else if (c->peer_reset) {
		k = -ECONNRESET;
	} else if (c->peer_closed) {
		k = 0;
	} else {
		k = -EWOULDBLOCK;
	}
	if (k < 0) { errno = (int)-k; return -1; }
	if ((size_t)k > avail) k = (long)avail;
	if ((size_t)k > cap) vf_harness_error("simnet: on_recv returned more than the buffer capacity");
	if (k > 0) memcpy(buf, c->in.p + c->in_off, (size_t)k);
	c->in_off += (size_t)k;
	return k;
}

int close(int fd) {
	sn_conn *c = sn_by_fd(fd);
	if (!c) return (int)syscall(SYS_close, fd);
	sn_calls++;
	c->state = SN_CLOSED_BY_CLIENT;
	return 0;
}

/* ====================================================================== fake curl */
fc_hooks fc;
int fc_multi_perform_result, fc_multi_add_result;
long fc_calls;
char fc_last_url[2048];
char fc_last_headers[1024];
int fc_easy_live;
static int fc_next_id;
static fc_easy *multi_list[256];
static int multi_n;
static int multi_live;
static CURLMsg the_msg;

void fc_reset(void) {
	memset(&fc, 0, sizeof fc);
	fc_multi_perform_result = fc_multi_add_result = 0;
	fc_calls = 0;
	fc_last_url[0] = 0;
	fc_last_headers[0] = 0;
	multi_n = 0;
}

CURLcode curl_global_init(long flags) { (void)flags; return CURLE_OK; }
void curl_global_cleanup(void) {}

struct curl_slist *curl_slist_append(struct curl_slist *l, const char *s) {
	struct curl_slist *n = (struct curl_slist *)calloc(1, sizeof *n), *p;
	n->data = strdup(s);
	if (!l) return n;
	for (p = l; p->next; p = p->next) {}
	p->next = n;
	return l;
}
void curl_slist_free_all(struct curl_slist *l) {
	while (l) { struct curl_slist *n = l->next; free(l->data); free(l); l = n; }
}

CURL *curl_easy_init(void) {
	fc_easy *e = (fc_easy *)calloc(1, sizeof *e);
	e->id = ++fc_next_id;
	fc_easy_live++;
	return (CURL *)e;
}
static void easy_clear(fc_easy *e) {
	free(e->url); e->url = NULL;
	free(e->useragent); e->useragent = NULL;
	e->post = NULL; e->postsize = -1; e->is_post = 0;
	e->write_fn = NULL; e->write_data = NULL; e->priv = NULL; e->errbuf = NULL; e->headers = NULL;
	e->connect_timeout = e->timeout = 0; e->http_code = 0;
	e->done = e->msg_pending = 0; e->result = 0;
	vb_reset(&e->sent);
	e->have_completion = 0; vb_reset(&e->comp_data);
}
void curl_easy_reset(CURL *h) { fc_easy *e = (fc_easy *)h; if (e->in_multi) vf_harness_error("fakecurl: reset of a handle that is in a multi handle"); easy_clear(e); }
void curl_easy_cleanup(CURL *h) {
	fc_easy *e = (fc_easy *)h;
	int i;
	if (!e) return;
	/* libcurl removes the handle from its multi handle on cleanup */
	for (i = 0; i < multi_n; i++) if (multi_list[i] == e) { memmove(&multi_list[i], &multi_list[i + 1], sizeof(multi_list[0]) * (size_t)(multi_n - i - 1)); multi_n--; break; }
	easy_clear(e);
	vb_free(&e->sent); vb_free(&e->comp_data);
	fc_easy_live--;
	free(e);
}
#undef curl_easy_setopt
CURLcode curl_easy_setopt(CURL *h, CURLoption opt, ...) {
	fc_easy *e = (fc_easy *)h;
	va_list ap;
	va_start(ap, opt);
	switch ((int)opt) {
		case CURLOPT_URL: { const char *s = va_arg(ap, const char *); free(e->url); e->url = s ? strdup(s) : NULL; break; }
		case CURLOPT_USERAGENT: { const char *s = va_arg(ap, const char *); free(e->useragent); e->useragent = s ? strdup(s) : NULL; break; }
		case CURLOPT_POSTFIELDS: e->post = va_arg(ap, const void *); break;
		case CURLOPT_POSTFIELDSIZE: e->postsize = va_arg(ap, long); break;
		case CURLOPT_POST: e->is_post = (int)va_arg(ap, long); break;
		case CURLOPT_WRITEFUNCTION: e->write_fn = va_arg(ap, size_t (*)(char *, size_t, size_t, void *)); break;
		case CURLOPT_WRITEDATA: e->write_data = va_arg(ap, void *); break;
		case CURLOPT_PRIVATE: e->priv = va_arg(ap, void *); break;
		case CURLOPT_ERRORBUFFER: e->errbuf = va_arg(ap, char *); break;
		case CURLOPT_HTTPHEADER: e->headers = va_arg(ap, void *); break;
		case CURLOPT_CONNECTTIMEOUT: e->connect_timeout = va_arg(ap, long); break;
		case CURLOPT_TIMEOUT: e->timeout = va_arg(ap, long); break;
		default: (void)va_arg(ap, long); break;
	}
	va_end(ap);
	return CURLE_OK;
}
#undef curl_easy_getinfo
CURLcode curl_easy_getinfo(CURL *h, CURLINFO info, ...) {
	fc_easy *e = (fc_easy *)h;
	va_list ap;
	CURLcode r = CURLE_OK;
	va_start(ap, info);
	switch ((int)info) {
		case CURLINFO_RESPONSE_CODE: *va_arg(ap, long *) = e->http_code; break;
		case CURLINFO_PRIVATE: *va_arg(ap, char **) = (char *)e->priv; break;
		default: r = CURLE_BAD_FUNCTION_ARGUMENT; break;
	}
	va_end(ap);
	return r;
}
static void start_transfer(fc_easy *e) {
	struct curl_slist *s;
	size_t o = 0;
	fc_calls++;
	snprintf(fc_last_url, sizeof fc_last_url, "%s", e->url ? e->url : "");
	fc_last_headers[0] = 0;
	for (s = (struct curl_slist *)e->headers; s; s = s->next) o += (size_t)snprintf(fc_last_headers + o, sizeof fc_last_headers - o, "%s\n", s->data);
	vb_reset(&e->sent);
	if (e->is_post && e->post) vb_put(&e->sent, e->post, e->postsize >= 0 ? (size_t)e->postsize : strlen((const char *)e->post));
}
static int deliver(fc_easy *e, const unsigned char *d, size_t n, size_t chunk) {
	size_t off = 0;
	if (chunk == 0) chunk = n ? n : 1;
	while (off < n) {
		size_t k = n - off < chunk ? n - off : chunk;
		/* libcurl hands the callback a buffer it owns; use an exactly sized copy so that an
		 * over-read by the callback faults */
		char *tmp = (char *)malloc(k);
		size_t r;
		memcpy(tmp, d + off, k);
		r = e->write_fn ? e->write_fn(tmp, 1, k, e->write_data) : k;
		free(tmp);
		if (r != k) return CURLE_WRITE_ERROR;
		off += k;
	}
	return CURLE_OK;
}
CURLcode curl_easy_perform(CURL *h) {
	fc_easy *e = (fc_easy *)h;
	vbuf resp;
	long http = 200;
	int code;
	start_transfer(e);
	vb_init(&resp);
	if (fc.on_perform) code = fc.on_perform(e, &resp, &http);
	else { code = CURLE_COULDNT_CONNECT; http = 0; }
	e->http_code = http;
	if (code == CURLE_OK) code = deliver(e, resp.p, resp.n, 0);
	if (code != CURLE_OK && e->errbuf) snprintf(e->errbuf, CURL_ERROR_SIZE, "simulated curl error %d", code);
	vb_free(&resp);
	return (CURLcode)code;
}
const char *curl_easy_strerror(CURLcode c) { (void)c; return "simulated"; }
const char *curl_multi_strerror(CURLMcode c) { (void)c; return "simulated multi error"; }

CURLM *curl_multi_init(void) { multi_live++; return (CURLM *)&multi_live; }
CURLMcode curl_multi_cleanup(CURLM *m) { (void)m; multi_live--; return CURLM_OK; }
#undef curl_multi_setopt
CURLMcode curl_multi_setopt(CURLM *m, CURLMoption o, ...) { (void)m; (void)o; return CURLM_OK; }
CURLMcode curl_multi_add_handle(CURLM *m, CURL *h) {
	fc_easy *e = (fc_easy *)h;
	(void)m;
	if (fc_multi_add_result) return (CURLMcode)fc_multi_add_result;
	if (e->in_multi) return CURLM_ADDED_ALREADY;
	if (multi_n >= 256) vf_harness_error("fakecurl: too many transfers");
	e->in_multi = 1; e->done = 0; e->msg_pending = 0; e->have_completion = 0;
	multi_list[multi_n++] = e;
	start_transfer(e);
	if (fc.on_submit) fc.on_submit(e);
	return CURLM_OK;
}
CURLMcode curl_multi_remove_handle(CURLM *m, CURL *h) {
	fc_easy *e = (fc_easy *)h;
	int i;
	(void)m;
	for (i = 0; i < multi_n; i++) if (multi_list[i] == e) {
		memmove(&multi_list[i], &multi_list[i + 1], sizeof(multi_list[0]) * (size_t)(multi_n - i - 1));
		multi_n--;
		e->in_multi = 0;
		return CURLM_OK;
	}
	return CURLM_OK;
}
int fc_pending_count(void) { int i, n = 0; for (i = 0; i < multi_n; i++) if (!multi_list[i]->done && !multi_list[i]->have_completion) n++; return n; }
fc_easy *fc_pending(int k) { int i; for (i = 0; i < multi_n; i++) if (!multi_list[i]->done && !multi_list[i]->have_completion) { if (k-- == 0) return multi_list[i]; } return NULL; }
void fc_complete(fc_easy *e, int code, long http, const void *data, size_t n, size_t chunk) {
	e->have_completion = 1; e->comp_code = code; e->comp_http = http; e->comp_chunk = chunk;
	vb_reset(&e->comp_data);
	vb_put(&e->comp_data, data, n);
}
CURLMcode curl_multi_perform(CURLM *m, int *running) {
	int i, r = 0;
	(void)m;
	if (fc.on_multi_perform) fc.on_multi_perform();
	if (fc_multi_perform_result) { if (running) *running = 0; return (CURLMcode)fc_multi_perform_result; }
	for (i = 0; i < multi_n; i++) {
		fc_easy *e = multi_list[i];
		if (!e->done && e->have_completion) {
			int code = e->comp_code;
			e->http_code = e->comp_http;
			if (code == CURLE_OK) code = deliver(e, e->comp_data.p, e->comp_data.n, e->comp_chunk);
			if (code != CURLE_OK && e->errbuf) snprintf(e->errbuf, CURL_ERROR_SIZE, "simulated curl error %d", code);
			e->result = code;
			e->done = 1; e->msg_pending = 1; e->have_completion = 0;
		}
		if (!e->done) r++;
	}
	if (running) *running = r;
	return CURLM_OK;
}
CURLMsg *curl_multi_info_read(CURLM *m, int *left) {
	int i, pend = 0;
	fc_easy *first = NULL;
	(void)m;
	for (i = 0; i < multi_n; i++) if (multi_list[i]->msg_pending) { if (!first) first = multi_list[i]; else pend++; }
	if (left) *left = pend;
	if (!first) return NULL;
	first->msg_pending = 0;
	the_msg.msg = CURLMSG_DONE;
	the_msg.easy_handle = (CURL *)first;
	the_msg.data.result = (CURLcode)first->result;
	return &the_msg;
}
