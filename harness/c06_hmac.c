/* C06 - PDUs are HMAC-authenticated: requests carry a correct MAC, responses need one.
 *
 * Part A (requests): service x PDU version x MAC algorithm x key length x login id x content x client; the bytes the
 *   client hands to the transport are re-parsed by the reference and the MAC is recomputed with the reference HMAC.
 * Part B (responses): authentic responses built by the reference, then every single-bit flip, every truncation and a
 *   menu of structural deviations, through the blocking, asynchronous and high-availability clients. Oracle:
 *   delivered content  =>  the reference authenticates the bytes that were sent AND the content equals the content
 *   of the authentic response. */
#include "ku.h"
#include "srv.h"
#include "ref/ref_pdu.h"
#include <ksi/net_async.h>
#include <ksi/net_ha.h>
#include <ksi/net_uri.h>

/* ------------------------------------------------------------------ common tables */
static const int MACALGS[] = {RH_SHA256, RH_SHA384, RH_SHA512, RH_RIPEMD160};
#define NMACALG 4
static const int KEYLENS[] = {1, 2, 31, 32, 33, 63, 64, 65, 127, 128, 129, 1000, 65535};
#define NKEYLEN 13
static const char *LOGINS[3] = {
	"u",
	"L123456789012345678901234567890123456789012345678901234567890123",              /* 64 characters */
	"k\xc3\xa4ytt\xc3\xa4j\xc3\xa4-\xc5\xbe\xc3\xb5\xc3\xbc"                           /* UTF-8 with 2-byte sequences */
};
enum { CL_STCP = 0, CL_SHTTP, CL_ATCP, CL_AHTTP, CL_HA1T, CL_HA1H, CL_HA2T, CL_HA2H, CL_N };
static const char *CLNAME[CL_N] = {"stcp", "shttp", "atcp", "ahttp", "ha1tcp", "ha1http", "ha2tcp", "ha2http"};
#define CL_IS_TCP(c) ((c) == CL_STCP || (c) == CL_ATCP || (c) == CL_HA1T || (c) == CL_HA2T)
#define CL_IS_SYNC(c) ((c) <= CL_SHTTP)
#define CL_IS_HA(c) ((c) >= CL_HA1T)
#define CL_NEP(c) ((c) >= CL_HA2T ? 2 : 1)

static char KEYBUF[65536 + 8];
static const char *make_key(int len) {
	int i;
	for (i = 0; i < len; i++) KEYBUF[i] = (char)(33 + ((i * 7 + len * 13 + i / 94) % 94));   /* printable, never NUL */
	KEYBUF[len] = 0;
	return KEYBUF;
}

static const char *aggr_uri(int client, int ep) {
	if (CL_IS_TCP(client)) return ep == 0 ? "ksi+tcp://aggr0.test:3332" : "ksi+tcp://aggr1.test:3332";
	return ep == 0 ? "ksi+http://aggr0.test:8080/gt-signingservice" : "ksi+http://aggr1.test:8080/gt-signingservice";
}
static const char *ext_uri(int client, int ep) {
	if (CL_IS_TCP(client)) return ep == 0 ? "ksi+tcp://ext0.test:3331" : "ksi+tcp://ext1.test:3331";
	return ep == 0 ? "ksi+http://ext0.test:8081/gt-extendingservice" : "ksi+http://ext1.test:8081/gt-extendingservice";
}

static void note_leak(void) {
	/* memory hygiene is not part of C06: recorded, never failed */
	if (vf_alloc_live != 0) { vf_outcome("note:sdk-blocks-live-after-free"); vf_alloc_live = 0; }
}

/* ====================================================================== Part A: requests */
enum { SV_AGGR = 0, SV_EXT, SV_ACONF, SV_ECONF, SV_N };
static const char *SVNAME[SV_N] = {"aggr", "ext", "aconf", "econf"};
static const int DOCALGS[] = {RH_SHA256, RH_SHA384, RH_SHA512, RH_RIPEMD160};
static const uint64_t LEVELS[] = {0, 1, 255};
#define A_T0 1500000000ULL
#define A_P0 (A_T0 + 86400ULL * 9 + 5)

static struct { int nreq; vbuf last; } A;

static void a_handler(const unsigned char *req, size_t n, vbuf *resp, void *user) {
	(void)resp; (void)user;                /* no answer: only the request matters */
	A.nreq++;
	vb_reset(&A.last);
	vb_put(&A.last, req, n);
}

/* request header callback: the caller adds an instance id and a message id to every request header (the blocking clients
 * run it just before the PDU is serialized; the asynchronous service composes its own header and does not use it) */
static int g_hdrcb;
static int g_rekey;                /* the endpoint was first configured with OTHER credentials (and used once), then re-configured: 1 = unrelated, 2 = the new
                                    * login id / key are proper prefixes of the former ones, 3 = the former ones are proper prefixes of the new ones */
static char g_fl[400], g_fk[65536 + 16];
static void former_creds(const char *login, const char *key) {
	size_t ll = strlen(login), kl = strlen(key);
	snprintf(g_fl, sizeof g_fl, "former-login"); snprintf(g_fk, sizeof g_fk, "former-key-0123456789");
	if (g_rekey == 2) { snprintf(g_fl, sizeof g_fl, "%s-x", login); snprintf(g_fk, sizeof g_fk, "%s-staging", key); }
	if (g_rekey == 3) {
		/* each of the two on its own: a one-character value has no proper non-empty prefix */
		if (ll > 1) snprintf(g_fl, sizeof g_fl, "%.*s", (int)(ll - 1), login);
		if (kl > 1) snprintf(g_fk, sizeof g_fk, "%.*s", (int)(kl - 1), key);
	}
}

#define A_INST 0x1122334455ULL
#define A_MSG 9ULL
static int a_hdr_cb(KSI_Header *hdr) {
	KSI_CTX *c = KSI_Header_getCtx(hdr);
	KSI_Integer *a = NULL, *b = NULL, *old = NULL;
	if (KSI_Integer_new(c, A_INST, &a) != KSI_OK || KSI_Integer_new(c, A_MSG, &b) != KSI_OK) { KSI_Integer_free(a); KSI_Integer_free(b); return KSI_OUT_OF_MEMORY; }
	KSI_Header_getInstanceId(hdr, &old); KSI_Integer_free(old);
	KSI_Header_setInstanceId(hdr, a);
	old = NULL; KSI_Header_getMessageId(hdr, &old); KSI_Integer_free(old);
	KSI_Header_setMessageId(hdr, b);
	return KSI_OK;
}

static int a_ncontent(int sv) { return sv == SV_AGGR ? 12 : sv == SV_EXT ? 2 : 1; }

/* drive an asynchronous service until the request reached the transport (or cannot) */
static void a_pump(KSI_AsyncService *svc) {
	int i;
	for (i = 0; i < 6 && A.nreq == 0; i++) {
		KSI_AsyncHandle *out = NULL;
		size_t waiting = 0;
		if (KSI_AsyncService_run(svc, &out, &waiting) != KSI_OK) break;
		vf_count("impl_calls", 1);
		if (out != NULL) { KSI_AsyncHandle_free(out); break; }
	}
}

static void a_one(int sv, int ver, int alg, const char *key, size_t keylen, int li, int client, int content) {
	KSI_CTX *ctx = ku_ctx();
	const char *login = LOGINS[li];
	int is_aggr = (sv == SV_AGGR || sv == SV_ACONF);
	int res = KSI_UNKNOWN_ERROR;
	unsigned char h[RH_MAX_IMPRINT];
	size_t hl = 0;
	uint64_t level = 0;
	int with_pub = 0;
	rp_req r;
	char tag[64];

	srv_install(a_handler, NULL);
	A.nreq = 0; vb_reset(&A.last);
	snprintf(tag, sizeof tag, "req:%s:v%d:alg%d%s%s", SVNAME[sv], ver, alg, g_hdrcb ? ":hdrcb" : "", g_rekey == 1 ? ":rekey" : g_rekey == 2 ? ":rekey-shorter" : g_rekey == 3 ? ":rekey-longer" : "");
	if (g_hdrcb && KSI_CTX_setRequestHeaderCallback(ctx, a_hdr_cb) != KSI_OK) vf_harness_error("header callback refused");
	KSI_CTX_setOption(ctx, is_aggr ? KSI_OPT_AGGR_PDU_VER : KSI_OPT_EXT_PDU_VER, (void *)(size_t)ver);
	if (is_aggr) KSI_CTX_setAggregatorHmacAlgorithm(ctx, (size_t)alg); else KSI_CTX_setExtenderHmacAlgorithm(ctx, (size_t)alg);
	/* the other service is pinned to another algorithm: whichever is looked at must be this service's own */
	if (is_aggr) KSI_CTX_setExtenderHmacAlgorithm(ctx, (size_t)(alg == RH_SHA384 ? RH_SHA512 : RH_SHA384)); else KSI_CTX_setAggregatorHmacAlgorithm(ctx, (size_t)(alg == RH_SHA384 ? RH_SHA512 : RH_SHA384));
	if (sv == SV_AGGR) { hl = ref_fake_imprint(DOCALGS[content / 3], 11u + (unsigned)content, h); level = LEVELS[content % 3]; }
	if (sv == SV_EXT) with_pub = content;

	if (client == CL_STCP || client == CL_SHTTP) {
		if (g_rekey) {
			/* former credentials, used for one request that nobody answers */
			KSI_Config *c0 = NULL;
			former_creds(login, key);
			if ((is_aggr ? KSI_CTX_setAggregator(ctx, aggr_uri(client, 0), g_fl, g_fk) : KSI_CTX_setExtender(ctx, ext_uri(client, 0), g_fl, g_fk)) != KSI_OK) vf_harness_error("former endpoint");
			if (is_aggr) KSI_receiveAggregatorConfig(ctx, &c0); else KSI_receiveExtenderConfig(ctx, &c0);
			KSI_Config_free(c0);
			A.nreq = 0; vb_reset(&A.last);
		}
		if ((is_aggr ? KSI_CTX_setAggregator(ctx, aggr_uri(client, 0), login, key) : KSI_CTX_setExtender(ctx, ext_uri(client, 0), login, key)) != KSI_OK) {
			vf_fail("endpoint-refused", "%s: the endpoint (login id of %zu bytes, key of %zu bytes) was refused", tag, strlen(login), keylen);
			goto done;
		}
		if (sv == SV_AGGR) {
			KSI_DataHash *hsh = NULL;
			KSI_Signature *sig = NULL;
			KSI_DataHash_fromImprint(ctx, h, hl, &hsh);
			res = KSI_Signature_signAggregated(ctx, hsh, level, &sig);
			if (res == KSI_OK || sig != NULL) vf_fail("content-without-response", "%s: signing reported success although the server did not answer", tag);
			KSI_Signature_free(sig); KSI_DataHash_free(hsh);
		} else if (sv == SV_EXT) {
			KSI_Integer *a = NULL, *b = NULL;
			KSI_ExtendReq *rq = NULL;
			KSI_RequestHandle *hd = NULL;
			KSI_ExtendResp *rs = NULL;
			KSI_Integer_new(ctx, A_T0, &a);
			if (with_pub) KSI_Integer_new(ctx, A_P0, &b);
			res = KSI_createExtendRequest(ctx, a, b, &rq);
			if (res == KSI_OK) res = KSI_sendExtendRequest(ctx, rq, &hd);
			if (res == KSI_OK) res = KSI_RequestHandle_perform(hd);
			if (res == KSI_OK) res = KSI_RequestHandle_getExtendResponse(hd, &rs);
			if (res == KSI_OK || rs != NULL) vf_fail("content-without-response", "%s: an extend response was returned although the server did not answer", tag);
			KSI_ExtendResp_free(rs); KSI_RequestHandle_free(hd); KSI_ExtendReq_free(rq);
			KSI_Integer_free(a); KSI_Integer_free(b);
		} else {
			KSI_Config *cfg = NULL;
			res = sv == SV_ACONF ? KSI_receiveAggregatorConfig(ctx, &cfg) : KSI_receiveExtenderConfig(ctx, &cfg);
			if (res == KSI_OK || cfg != NULL) vf_fail("content-without-response", "%s: a configuration was returned although the server did not answer", tag);
			KSI_Config_free(cfg);
		}
		vf_count("impl_calls", 1);
	} else {
		KSI_AsyncService *svc = NULL;
		KSI_AsyncHandle *hd = NULL;
		res = is_aggr ? KSI_SigningAsyncService_new(ctx, &svc) : KSI_ExtendingAsyncService_new(ctx, &svc);
		if (res != KSI_OK) vf_harness_error("async service new 0x%x", res);
		if (g_rekey) {
			/* the service is first pointed at the endpoint with former credentials and carries one request, then re-pointed */
			KSI_AsyncHandle *h0 = NULL;
			KSI_DataHash *d0 = NULL;
			unsigned char hh[RH_MAX_IMPRINT];
			size_t hn = ref_fake_imprint(RH_SHA256, 5, hh);
			former_creds(login, key);
			if (KSI_AsyncService_setEndpoint(svc, is_aggr ? aggr_uri(client, 0) : ext_uri(client, 0), g_fl, g_fk) != KSI_OK) vf_harness_error("former async endpoint");
			if (is_aggr) {
				KSI_DataHash_fromImprint(ctx, hh, hn, &d0);
				if (KSI_AsyncSigningHandle_new(ctx, d0, 0, &h0) != KSI_OK) vf_harness_error("former handle");
				if (KSI_AsyncService_addRequest(svc, h0) != KSI_OK) KSI_AsyncHandle_free(h0); else a_pump(svc);
			}
			A.nreq = 0; vb_reset(&A.last);
		}
		if (g_rekey && KSI_AsyncService_setEndpoint(svc, is_aggr ? aggr_uri(client, 0) : ext_uri(client, 0), login, key) != KSI_OK) {
			/* a plain asynchronous service takes its endpoint once; the refusal is a definite answer and nothing is sent under mixed credentials */
			vf_outcome("%s:async-endpoint-taken-once", tag);
			if (A.nreq != 0) vf_fail("request-after-refused-endpoint", "%s: a request left although re-pointing the service was refused", tag);
			KSI_AsyncService_free(svc);
			goto done;
		}
		if (!g_rekey && KSI_AsyncService_setEndpoint(svc, is_aggr ? aggr_uri(client, 0) : ext_uri(client, 0), login, key) != KSI_OK) {
			vf_fail("endpoint-refused", "%s: the asynchronous endpoint (login id of %zu bytes, key of %zu bytes) was refused", tag, strlen(login), keylen);
			KSI_AsyncService_free(svc);
			goto done;
		}
		if (sv == SV_AGGR) {
			KSI_DataHash *hsh = NULL;
			KSI_DataHash_fromImprint(ctx, h, hl, &hsh);
			res = KSI_AsyncSigningHandle_new(ctx, hsh, level, &hd);
			if (res != KSI_OK) KSI_DataHash_free(hsh);
		} else if (sv == SV_EXT) {
			KSI_Integer *a = NULL, *b = NULL;
			KSI_ExtendReq *rq = NULL;
			KSI_Integer_new(ctx, A_T0, &a);
			if (with_pub) KSI_Integer_new(ctx, A_P0, &b);
			res = KSI_createExtendRequest(ctx, a, b, &rq);
			if (res == KSI_OK) { res = KSI_AsyncExtendHandle_new(ctx, rq, &hd); if (res != KSI_OK) KSI_ExtendReq_free(rq); }
			KSI_Integer_free(a); KSI_Integer_free(b);
		} else if (sv == SV_ACONF) {
			KSI_AggregationReq *rq = NULL;
			KSI_Config *cfg = NULL;
			KSI_AggregationReq_new(ctx, &rq); KSI_Config_new(ctx, &cfg);
			KSI_AggregationReq_setConfig(rq, cfg);
			res = KSI_AsyncAggregationHandle_new(ctx, rq, &hd);
			if (res != KSI_OK) KSI_AggregationReq_free(rq);
		} else {
			KSI_ExtendReq *rq = NULL;
			KSI_Config *cfg = NULL;
			KSI_ExtendReq_new(ctx, &rq); KSI_Config_new(ctx, &cfg);
			KSI_ExtendReq_setConfig(rq, cfg);
			res = KSI_AsyncExtendHandle_new(ctx, rq, &hd);
			if (res != KSI_OK) KSI_ExtendReq_free(rq);
		}
		if (res == KSI_OK) {
			res = KSI_AsyncService_addRequest(svc, hd);
			vf_count("impl_calls", 1);
			if (res != KSI_OK) KSI_AsyncHandle_free(hd);
			else a_pump(svc);
		}
		KSI_AsyncService_free(svc);
	}

	/* ---- the request as it reached the transport */
	if (A.nreq == 0) {
		/* config requests do not exist in PDU version 1 for the extender; the library may refuse other combinations too,
		 * but a trusted algorithm with a v2 PDU must produce a request */
		vf_outcome("%s:nothing-sent", tag);
		vf_obs("res=%x", res);
		if (ver == 2 || sv == SV_AGGR || sv == SV_EXT)
			vf_fail("request-not-sent", "%s %s login#%d key %zu bytes content %d: no request reached the transport (0x%x)", tag, CLNAME[client], li, keylen, content, res);
		if (sv == SV_ECONF && ver == 1 && CL_IS_SYNC(client) && res != KSI_UNSUPPORTED_PDU_VERSION)
			vf_fail("v1-config-status", "extender configuration with PDU v1 ended with 0x%x, documented KSI_UNSUPPORTED_PDU_VERSION", res);
		goto done;
	}
	if (A.nreq > 1) vf_fail("request-repeated", "%s: %d request PDUs for one call", tag, A.nreq);
	if (rp_parse_request(A.last.p, A.last.n, is_aggr ? RP_AGGR : RP_EXT, &r) != 0) {
		vf_fail("request-unparsable", "%s %s: emitted bytes are not a well formed request PDU: %s", tag, CLNAME[client], vf_hex(A.last.p, A.last.n > 300 ? 300 : A.last.n));
		rp_req_free(&r);
		goto done;
	}
	if (r.version != ver) vf_fail("request-version", "%s: request has PDU version %d", tag, r.version);
	if (!r.has_header) vf_fail("request-no-header", "%s: request PDU without header", tag);
	else {
		if (!r.header_first) vf_fail("request-header-not-first", "%s: header is not the first element", tag);
		if (strcmp(r.login, login) != 0) vf_fail("request-login", "%s: login id '%s' on the wire, configured '%s'", tag, r.login, login);
		if (g_hdrcb && CL_IS_SYNC(client) && !(r.has_instance && r.instance_id == A_INST && r.has_msgid && r.message_id == A_MSG))
			vf_fail("request-header-callback", "%s %s: the header on the wire (instance id %s%llx, message id %s%llu) is not the one the caller's header callback produced", tag, CLNAME[client],
			        r.has_instance ? "" : "absent ", (unsigned long long)r.instance_id, r.has_msgid ? "" : "absent ", (unsigned long long)r.message_id);
	}
	if (!r.has_mac) vf_fail("request-no-mac", "%s: request PDU without MAC", tag);
	else {
		if (!r.mac_last) vf_fail("request-mac-not-last", "%s: MAC is not the last element", tag);
		if (r.mac[0] != alg) vf_fail("request-mac-algorithm", "%s: MAC algorithm id %d on the wire, configured %d", tag, r.mac[0], alg);
		if (!rp_request_mac_ok(&r, key, keylen))
			vf_fail("request-mac", "%s %s login#%d key %zu bytes content %d: MAC %s is not the reference HMAC over the authenticated range (%zu bytes) of %s", tag, CLNAME[client], li, keylen, content,
			        vf_hex(r.mac, r.mac_len), r.mac_in.n, vf_hex(A.last.p, A.last.n > 200 ? 200 : A.last.n));
	}
	if (r.npayload != 1) vf_fail("request-payload-count", "%s: %d payload elements", tag, r.npayload);
	if (sv == SV_AGGR) {
		if (!r.has_hash || r.hash_len != hl || memcmp(r.hash, h, hl) != 0) vf_fail("request-content", "%s: request hash %s, caller gave %s", tag, vf_hex(r.hash, r.hash_len), vf_hex(h, hl));
		if ((r.has_level ? r.level : 0) != level) vf_fail("request-content", "%s: request level %llu, caller gave %llu", tag, (unsigned long long)(r.has_level ? r.level : 0), (unsigned long long)level);
	} else if (sv == SV_EXT) {
		if (!r.has_aggr_time || r.aggr_time != A_T0) vf_fail("request-content", "%s: aggregation time %llu on the wire", tag, (unsigned long long)r.aggr_time);
		if (r.has_pub_time != with_pub || (with_pub && r.pub_time != A_P0)) vf_fail("request-content", "%s: publication time present=%d value=%llu, caller: present=%d", tag, r.has_pub_time, (unsigned long long)r.pub_time, with_pub);
	} else {
		if (!r.has_conf_req) vf_fail("request-content", "%s: no configuration request element", tag);
	}
	vf_outcome("%s:ok", tag);
	vf_obs("n=%zu mac=%s", A.last.n, vf_hex(r.mac, r.mac_len > 8 ? 8 : r.mac_len));
	vf_count("requests_checked", 1);
	rp_req_free(&r);
done:
	if (getenv("VF_DEBUG")) { fprintf(stderr, "[%s %s login#%d key %zu content %d] nreq=%d res=0x%x\n", tag, CLNAME[client], li, keylen, content, A.nreq, res); KSI_ERR_statusDump(ctx, stderr); }
	KSI_CTX_free(ctx);
	note_leak();
}

static void part_a(void) {
	int sv, ver, ai, ki, li, cl, c, cb;
	for (cb = 0; cb < 5; cb++)
	for (sv = 0; sv < SV_N; sv++) for (ver = 2; ver >= 1; ver--) for (ai = 0; ai < NMACALG; ai++) for (ki = 0; ki < NKEYLEN; ki++)
	for (li = 0; li < 3; li++) for (cl = CL_STCP; cl <= CL_AHTTP; cl++) {
		int alg = MACALGS[ai];
		if (!ref_backend_supports(alg)) continue;
		/* with a request header callback: keys of 1 and 65 bytes, first login id, every service / version / client (thorough: every algorithm) */
		if (cb && !((ki == 0 || ki == 7) && li == 0 && (ai == 0 || VF_THOROUGH))) continue;
		g_hdrcb = cb == 1; g_rekey = cb >= 2 ? cb - 1 : 0;
		if (cb >= 3 && cl > CL_SHTTP) continue;                 /* a plain asynchronous service cannot be re-pointed */
		if (!VF_THOROUGH && !cb) {
			/* quick: (all key lengths x SHA-256 x blocking TCP x all login ids) + (all algorithms x keys {1,64,65,65535} x all clients x login ids 0/2) */
			int wide = (ai == 0 && cl == CL_STCP);
			int narrow = (ki == 0 || ki == 6 || ki == 7 || ki == 12) && li != 1;
			if (!wide && !narrow) continue;
		}
		if (!vf_case_begin("A%s:%s:v%d:a%d:k%d:l%d:%s", cb == 1 ? "cb" : cb == 2 ? "rekey" : cb == 3 ? "rekey-shorter" : cb == 4 ? "rekey-longer" : "", SVNAME[sv], ver, alg, KEYLENS[ki], li, CLNAME[cl])) continue;
		{
			const char *key = make_key(KEYLENS[ki]);
			int nc = a_ncontent(sv);
			for (c = 0; c < nc; c++) {
				if (!VF_THOROUGH && sv == SV_AGGR && !(c == 0 || c == 4 || c == 8 || c == 11 || c == 2)) continue;   /* quick: 5 of 12 hash x level combinations */
				a_one(sv, ver, alg, key, (size_t)KEYLENS[ki], li, cl, c);
			}
			if (sv == 0 && ver == 2 && ai == 0 && ki < 2 && li == 0) vf_sample("request check: service %s v%d HMAC alg %d key %d bytes login#%d via %s: header first, login, MAC last, MAC = reference HMAC over the authenticated range", SVNAME[sv], ver, alg, KEYLENS[ki], li, CLNAME[cl]);
		}
		vf_case_end(1);
	}
}

/* ====================================================================== Part B: responses */
enum { K_AGGR = 0, K_EXT, K_ACONF, K_ECONF, K_APUSH, K_EPUSH, K_N };
/* K_APUSH / K_EPUSH: an ordinary (PDU v2) response that carries an unrequested configuration as a second payload; the
 * configuration reaches the caller through the configuration callback */
#define KBASE(k) ((k) == K_APUSH ? K_AGGR : (k) == K_EPUSH ? K_EXT : (k))
#define KPUSH(k) ((k) == K_APUSH || (k) == K_EPUSH)
static const char *KNAME[K_N] = {"aggr", "ext", "aconf", "econf", "aggr+conf", "ext+conf"};
enum { M_NONE = 0, M_FLIP, M_TRUNC, M_KEY, M_ALG, M_ALG_UNPIN, M_ALG_UNPIN_BADKEY, M_VERSION, M_NO_HEADER, M_NO_MAC, M_MAC_FIRST, M_HEADER_LAST, M_BAD_MAC,
       M_EP0_BAD, M_CROSS_KEY, M_SPLICE, M_ERRPLUS_BADMAC, M_ERRFIRST_BADMAC, M_ERRPLUS_BARE, M_ERRPLUS_NOMAC, M_ERRPLUS_AUTH, M_N };
/* M_ERR*: a PDU (v2) that carries an error payload NEXT TO the ordinary payload: a MAC that does not verify, no header and no MAC
 * at all, no MAC, and (M_ERRPLUS_AUTH) a correct MAC */
static const char *MNAME[M_N] = {"authentic", "flip", "trunc", "other-key", "other-alg", "other-alg-unpinned", "unpinned-bad-key", "other-version", "no-header", "no-mac",
                                 "mac-not-last", "header-last", "bad-mac", "ha-one-endpoint-bad", "ha-cross-key", "splice",
                                 "error-payload-after-response-bad-mac", "error-payload-before-response-bad-mac", "error-payload-and-response-bare", "error-payload-and-response-no-mac", "error-payload-and-response-authentic-mac"};
static int B_err_extra;   /* 1: an error payload is appended to the payloads of the response built next, 2: put in front of them */
#define NKEYVAR 5
#define B_TA 1700000000ULL
#define B_T0 1600000000ULL
#define B_P0 (B_T0 + 86400ULL * 5 + 77)
#define B_PHEAD (B_T0 + 86400ULL * 40 + 3)
#define ACONF_URI "ksi+tcp://parent-aggr.test:3332"
#define ECONF_URI "ksi+tcp://parent-ext.test:3331"

typedef struct {
	int kind, version, cfg_alg, nep, client;
	const char *login[2], *key[2];
	int fam; long arg;
	KSI_CTX *ctx; int unpinned;
	int nreq[2]; vbuf auth[2], sent[2];
	int req_bad; char req_why[160];
	rsig view; int have_view;
	rsig cal; int have_cal;
	unsigned char root[RH_MAX_IMPRINT]; size_t root_len;
	unsigned char doc[RH_MAX_IMPRINT]; size_t doc_len;
} b_state;
static b_state B;

static int kind_is_aggr(int kind) { return kind == K_AGGR || kind == K_ACONF || kind == K_APUSH; }
static void b_reset(void) {
	vbuf a0 = B.auth[0], a1 = B.auth[1], s0 = B.sent[0], s1 = B.sent[1];
	memset(&B, 0, sizeof B);
	B.auth[0] = a0; B.auth[1] = a1; B.sent[0] = s0; B.sent[1] = s1;
	vb_reset(&B.auth[0]); vb_reset(&B.auth[1]); vb_reset(&B.sent[0]); vb_reset(&B.sent[1]);
}

/* ---- reference decision: do these bytes, as received by a client configured with (kind, version, algorithm or none, key),
 * form a PDU that contains header and MAC and whose MAC is the HMAC of the authenticated range? */
static int ra_authentic(const unsigned char *p, size_t n, int kind, int version, int cfg_alg, const void *key, size_t keylen, int stream) {
	rtlv top, e, hdr, mac, pl;
	size_t off = 0, total;
	int nh = 0, nm = 0, np = 0, mac_last = 0, dl, alg;
	unsigned want, v1pl;
	unsigned char m[RH_MAX_IMPRINT];
	size_t ml;
	memset(&hdr, 0, sizeof hdr); memset(&mac, 0, sizeof mac); memset(&pl, 0, sizeof pl);
	if (n == 0 || rtlv_read(p, n, &top) != 0) return 0;
	total = top.hdr + top.len;
	if (!stream && total != n) return 0;               /* a datagram-like transport delivered exactly these bytes as the PDU */
	want = version == 2 ? (kind_is_aggr(kind) ? 0x221u : 0x321u) : (kind_is_aggr(kind) ? 0x200u : 0x300u);
	v1pl = kind_is_aggr(kind) ? 0x202u : 0x302u;
	if (top.tag != want) return 0;                       /* other PDU version / not a response PDU of this service */
	while (off < top.len) {
		if (rtlv_read(top.val + off, top.len - off, &e) != 0) return 0;
		if (e.tag == 0x01) { nh++; hdr = e; hdr.val = top.val + off; }
		else if (e.tag == 0x1f) { nm++; mac = e; mac_last = (off + e.hdr + e.len == top.len); }
		else if (version == 1 && e.tag == v1pl) { np++; pl = e; pl.val = top.val + off; }
		else if (version == 2 && e.tag >= 0x02 && e.tag <= 0x05) np++;
		off += e.hdr + e.len;
	}
	if (nh != 1 || nm != 1 || np < 1) return 0;
	if (mac.len < 1) return 0;
	alg = mac.val[0];
	dl = ref_hash_len(alg);
	if (dl == 0 || mac.len != (size_t)dl + 1 || !ref_backend_supports(alg)) return 0;
	if (cfg_alg >= 0 && alg != cfg_alg) return 0;
	if (version == 2) {
		if (!mac_last) return 0;                            /* "everything before the digest" is the whole rest only when the MAC is last */
		ml = ref_hmac(alg, key, keylen, p, total - (size_t)dl, m);
	} else {
		vbuf in;
		if (np != 1) return 0;
		vb_init(&in);
		vb_put(&in, hdr.val, hdr.hdr + hdr.len);
		vb_put(&in, pl.val, pl.hdr + pl.len);
		ml = ref_hmac(alg, key, keylen, in.p, in.n, m);
		vb_free(&in);
	}
	return ml == mac.len && memcmp(m, mac.val, ml) == 0;
}

static void v1_aconf_payload(vbuf *out, uint64_t req_id) {
	vbuf c, b;
	vb_init(&c); vb_init(&b);
	rtlv_put_u64(&c, 0x01, 17); rtlv_put_u64(&c, 0x02, 1); rtlv_put_u64(&c, 0x03, 1000); rtlv_put_str(&c, 0x04, ACONF_URI);
	rtlv_put_u64(&b, 0x01, req_id);
	rtlv_put_u64(&b, 0x04, 0);
	rtlv_put(&b, 0x10, 0, 0, c.p, c.n, 0);
	rtlv_put(out, 0x202, 0, 0, b.p, b.n, 0);
	vb_free(&c); vb_free(&b);
}

static const char *B_login_override;
static void build_response(vbuf *out, const rp_req *r, int ep, int version, int alg, const char *key, size_t keylen, unsigned flags, int record) {
	rp_env e;
	vbuf body, payload;
	uint64_t id = r->has_req ? r->req_id : 1;
	memset(&e, 0, sizeof e);
	e.version = version; e.kind = kind_is_aggr(B.kind) ? RP_AGGR : RP_EXT; e.login = B_login_override ? B_login_override : B.login[ep]; e.mac_alg = alg; e.key = key; e.keylen = keylen; e.flags = flags;
	e.with_ids = 1; e.instance_id = 0x1234; e.message_id = 7;
	vb_init(&body); vb_init(&payload);
	switch (KBASE(B.kind)) {
		case K_AGGR: {
			rsig sig;
			rp_aggregate(&sig, r->hash, r->hash_len, 0, 0, 1, B_TA, B_TA + 86400 * 3);
			rp_sig_body(&sig, &body);
			if (record) { B.view = sig; B.have_view = 1; }
			rp_aggr_resp_payload(&payload, version, id, 1, 0, NULL, body.p, body.n);
			break;
		}
		case K_EXT: {
			rsig cal;
			rp_extend(&cal, B.root, B.root_len, r->has_aggr_time ? r->aggr_time : B_T0, B_PHEAD);
			rs_serialize_cal(&cal, &body);
			if (record) { B.cal = cal; B.have_cal = 1; }
			rp_ext_resp_payload(&payload, version, id, 1, 0, NULL, 1, B_PHEAD, body.p, body.n);
			break;
		}
		case K_ACONF:
			if (version == 2) rp_aggr_conf_payload(&payload, 17, 1, 1000, 12, ACONF_URI);
			else v1_aconf_payload(&payload, id);
			break;
		default:
			if (version == 2) rp_ext_conf_payload(&payload, 12, ECONF_URI, 1136073600LL + 1000, (int64_t)B_PHEAD);
			else rp_ext_resp_payload(&payload, 1, id, 1, 0, NULL, 1, B_PHEAD, NULL, 0);      /* only used for the other-version deviation */
			break;
	}
	if (B.kind == K_APUSH) rp_aggr_conf_payload(&payload, 17, 1, 1000, 12, ACONF_URI);
	if (B.kind == K_EPUSH) rp_ext_conf_payload(&payload, 12, ECONF_URI, 1136073600LL + 1000, (int64_t)B_PHEAD);
	if (B_err_extra) {
		vbuf ep2, all;
		vb_init(&ep2); vb_init(&all);
		rp_error_payload(&ep2, version, e.kind, 0x0101, "c06");
		if (B_err_extra == 2) { vb_putvb(&all, &ep2); vb_putvb(&all, &payload); } else { vb_putvb(&all, &payload); vb_putvb(&all, &ep2); }
		vb_reset(&payload); vb_putvb(&payload, &all);
		vb_free(&ep2); vb_free(&all);
	}
	rp_wrap_response(out, &e, payload.p, payload.n);
	vb_free(&body); vb_free(&payload);
}

static void b_handler(const unsigned char *req, size_t n, vbuf *resp, void *user) {
	rp_req r;
	int ep, other;
	const char *key;
	size_t kl;
	vbuf *auth, *sent;
	char kv[300];
	(void)user;
	if (rp_parse_request(req, n, kind_is_aggr(B.kind) ? RP_AGGR : RP_EXT, &r) != 0) {
		if (!B.req_bad) { B.req_bad = 1; snprintf(B.req_why, sizeof B.req_why, "request is not a well formed PDU"); }
		rp_req_free(&r);
		return;
	}
	for (ep = 0; ep < B.nep; ep++) if (strcmp(r.login, B.login[ep]) == 0) break;
	if (ep == B.nep) {
		if (!B.req_bad) { B.req_bad = 1; snprintf(B.req_why, sizeof B.req_why, "request carries login id '%s'", r.login); }
		rp_req_free(&r);
		return;
	}
	key = B.key[ep]; kl = strlen(key); other = B.nep == 2 ? 1 - ep : ep;
	if (!B.req_bad) {
		if (r.version != B.version) { B.req_bad = 1; snprintf(B.req_why, sizeof B.req_why, "request has PDU version %d, configured %d", r.version, B.version); }
		else if (!r.has_header || !r.header_first) { B.req_bad = 1; snprintf(B.req_why, sizeof B.req_why, "header missing or not first"); }
		else if (!r.has_mac || !r.mac_last) { B.req_bad = 1; snprintf(B.req_why, sizeof B.req_why, "MAC missing or not last"); }
		else if (r.mac[0] != B.cfg_alg) { B.req_bad = 1; snprintf(B.req_why, sizeof B.req_why, "MAC algorithm %d, configured %d", r.mac[0], B.cfg_alg); }
		else if (!rp_request_mac_ok(&r, key, kl)) { B.req_bad = 1; snprintf(B.req_why, sizeof B.req_why, "MAC of the request to endpoint %d is not the reference HMAC under that endpoint's key", ep); }
	}
	B.nreq[ep]++;
	if (B.fam == M_ALG_UNPIN || B.fam == M_ALG_UNPIN_BADKEY) {
		/* the caller removes the algorithm pinning after the request left (the option is a context option) */
		KSI_CTX_setOption(B.ctx, kind_is_aggr(B.kind) ? KSI_OPT_AGGR_HMAC_ALGORITHM : KSI_OPT_EXT_HMAC_ALGORITHM, (void *)(size_t)KSI_HASHALG_INVALID_VALUE);
		B.unpinned = 1;
	}
	auth = &B.auth[ep]; sent = &B.sent[ep];
	vb_reset(auth); vb_reset(sent);
	build_response(auth, &r, ep, B.version, B.cfg_alg, key, kl, 0, 1);
	switch (B.fam) {
		case M_FLIP:
			vb_putvb(sent, auth);
			if (B.arg >= 0 && (size_t)B.arg < sent->n * 8) sent->p[B.arg / 8] ^= (unsigned char)(0x80u >> (B.arg % 8));
			break;
		case M_TRUNC:
			vb_put(sent, auth->p, (size_t)B.arg < auth->n ? (size_t)B.arg : auth->n);
			break;
		case M_KEY:
			snprintf(kv, sizeof kv, "%s", key);
			switch (B.arg) {
				case 0: kv[kl - 1] = (char)(kv[kl - 1] == 'z' ? 'y' : kv[kl - 1] + 1); break;    /* last character differs */
				case 1: kv[kl - 1] = 0; break;                                                   /* proper prefix */
				case 2: kv[kl] = 'x'; kv[kl + 1] = 0; break;                                     /* extension */
				case 3: snprintf(kv, sizeof kv, "anon"); break;
				default: kv[0] = (char)(kv[0] ^ 0x20); break;                                    /* case of the first letter */
			}
			build_response(sent, &r, ep, B.version, B.cfg_alg, kv, strlen(kv), 0, 0);
			break;
		case M_ALG: case M_ALG_UNPIN:
			build_response(sent, &r, ep, B.version, (int)B.arg, key, kl, 0, 0);
			break;
		case M_ALG_UNPIN_BADKEY:
			build_response(sent, &r, ep, B.version, (int)B.arg, "not-the-key", 11, 0, 0);
			break;
		case M_VERSION: build_response(sent, &r, ep, B.version == 2 ? 1 : 2, B.cfg_alg, key, kl, 0, 0); break;
		case M_NO_HEADER: build_response(sent, &r, ep, B.version, B.cfg_alg, key, kl, RP_F_NO_HEADER, 0); break;
		case M_NO_MAC: build_response(sent, &r, ep, B.version, B.cfg_alg, key, kl, RP_F_NO_MAC, 0); break;
		case M_MAC_FIRST: build_response(sent, &r, ep, B.version, B.cfg_alg, key, kl, RP_F_MAC_FIRST, 0); break;
		case M_HEADER_LAST: build_response(sent, &r, ep, B.version, B.cfg_alg, key, kl, RP_F_HEADER_LAST, 0); break;
		case M_BAD_MAC: build_response(sent, &r, ep, B.version, B.cfg_alg, key, kl, RP_F_BAD_MAC, 0); break;
		case M_EP0_BAD: build_response(sent, &r, ep, B.version, B.cfg_alg, key, kl, ep == 0 ? RP_F_BAD_MAC : 0, 0); break;
		case M_CROSS_KEY: build_response(sent, &r, ep, B.version, B.cfg_alg, B.key[other], strlen(B.key[other]), 0, 0); break;
		case M_ERRPLUS_BADMAC: B_err_extra = 1; build_response(sent, &r, ep, B.version, B.cfg_alg, key, kl, RP_F_BAD_MAC, 0); B_err_extra = 0; break;
		case M_ERRFIRST_BADMAC: B_err_extra = 2; build_response(sent, &r, ep, B.version, B.cfg_alg, key, kl, RP_F_BAD_MAC, 0); B_err_extra = 0; break;
		case M_ERRPLUS_BARE: B_err_extra = 1; build_response(sent, &r, ep, B.version, B.cfg_alg, key, kl, RP_F_NO_HEADER | RP_F_NO_MAC, 0); B_err_extra = 0; break;
		case M_ERRPLUS_NOMAC: B_err_extra = 1; build_response(sent, &r, ep, B.version, B.cfg_alg, key, kl, RP_F_NO_MAC, 0); B_err_extra = 0; break;
		case M_ERRPLUS_AUTH: B_err_extra = 1; build_response(sent, &r, ep, B.version, B.cfg_alg, key, kl, 0, 0); B_err_extra = 0; break;
		case M_SPLICE: {
			/* the first arg bytes of the authentic response followed by the rest of ANOTHER authentic response under the same key
			 * (same payload, one letter of the header's login id differs; same length) */
			vbuf alt;
			char lg[64];
			vb_init(&alt);
			snprintf(lg, sizeof lg, "%s", B.login[ep]);
			lg[strlen(lg) - 1] = 'X';
			B_login_override = lg;
			build_response(&alt, &r, ep, B.version, B.cfg_alg, key, kl, 0, 0);
			B_login_override = NULL;
			if (alt.n != auth->n) vf_harness_error("splice: lengths differ");
			vb_put(sent, auth->p, (size_t)B.arg < auth->n ? (size_t)B.arg : auth->n);
			if ((size_t)B.arg < alt.n) vb_put(sent, alt.p + B.arg, alt.n - (size_t)B.arg);
			vb_free(&alt);
			break;
		}
		default: vb_putvb(sent, auth); break;
	}
	vb_putvb(resp, sent);
	rp_req_free(&r);
}

/* ---- content as the caller sees it */
static void put_int(vbuf *o, const char *name, KSI_Integer *v) {
	char b[64];
	if (v == NULL) snprintf(b, sizeof b, "%s=-;", name);
	else snprintf(b, sizeof b, "%s=%llu;", name, (unsigned long long)KSI_Integer_getUInt64(v));
	vb_put(o, b, strlen(b));
}
static void cfg_string(KSI_Config *c, vbuf *o) {
	KSI_Integer *v = NULL;
	KSI_LIST(KSI_Utf8String) *uris = NULL;
	size_t i;
	v = NULL; KSI_Config_getMaxLevel(c, &v); put_int(o, "max_level", v);
	v = NULL; KSI_Config_getAggrAlgo(c, &v); put_int(o, "aggr_algo", v);
	v = NULL; KSI_Config_getAggrPeriod(c, &v); put_int(o, "aggr_period", v);
	v = NULL; KSI_Config_getMaxRequests(c, &v); put_int(o, "max_req", v);
	v = NULL; KSI_Config_getCalendarFirstTime(c, &v); put_int(o, "cal_first", v);
	v = NULL; KSI_Config_getCalendarLastTime(c, &v); put_int(o, "cal_last", v);
	KSI_Config_getParentUri(c, &uris);
	vb_put(o, "uri=", 4);
	for (i = 0; i < KSI_Utf8StringList_length(uris); i++) {
		KSI_Utf8String *s = NULL;
		const char *cs;
		KSI_Utf8StringList_elementAt(uris, i, &s);
		cs = KSI_Utf8String_cstr(s);
		if (cs) vb_put(o, cs, strlen(cs));
		vb_putc(o, ',');
	}
	vb_putc(o, 0);
}
static void sig_content(KSI_Signature *s, vbuf *o) {
	unsigned char *raw = NULL;
	size_t rl = 0;
	if (KSI_Signature_serialize(s, &raw, &rl) != KSI_OK) { vb_put(o, "unserializable", 15); return; }
	vb_put(o, raw, rl);
	KSI_free(raw);
}

static void ext_source(rsig *src) {
	rs_params p;
	rs_default_params(&p);
	p.aggr_time = B_T0; p.pub_time = B_P0; p.tail = 1; p.nchains = 1; p.nlinks[0] = 1; p.chain_alg[0] = RH_SHA256; p.link_desc[0][0] = 0;
	rs_build(src, &p);
}

/* pushed configuration as the caller's callback sees it */
static vbuf G_cb;
static int G_cb_calls;
static int push_cb(KSI_CTX *ctx, KSI_Config *cfg) {
	(void)ctx;
	G_cb_calls++;
	vb_put(&G_cb, "|CONF:", 6);
	if (cfg) cfg_string(cfg, &G_cb);
	return KSI_OK;
}

/* one call through the chosen client against b_handler. Returns the status; *delivered = content reached the caller */
static int b_call(int kind, int version, int client, int alg, const char *const login[2], const char *const key[2], int fam, long arg, vbuf *content, int *delivered) {
	KSI_CTX *ctx = ku_ctx();
	KSI_Signature *src = NULL, *sig = NULL;
	KSI_DataHash *hsh = NULL;
	KSI_Config *cfg = NULL;
	rsig srcd;
	vbuf sb;
	int res = KSI_UNKNOWN_ERROR, is_aggr = kind_is_aggr(kind), i, ep, push = KPUSH(kind), kind0 = kind;

	kind = KBASE(kind);
	vb_reset(&G_cb); G_cb_calls = 0;
	srv_install(b_handler, NULL);
	b_reset();
	B.kind = kind0; B.version = version; B.cfg_alg = alg; B.nep = CL_NEP(client); B.client = client;
	if (push && client != CL_AHTTP) KSI_CTX_setOption(ctx, is_aggr ? KSI_OPT_AGGR_CONF_RECEIVED_CALLBACK : KSI_OPT_EXT_CONF_RECEIVED_CALLBACK, (void *)push_cb);
	B.login[0] = login[0]; B.login[1] = login[1]; B.key[0] = key[0]; B.key[1] = key[1];
	B.fam = fam; B.arg = arg; B.ctx = ctx;
	*delivered = 0;
	vb_reset(content);
	vb_init(&sb);
	KSI_CTX_setOption(ctx, is_aggr ? KSI_OPT_AGGR_PDU_VER : KSI_OPT_EXT_PDU_VER, (void *)(size_t)version);
	if (is_aggr) KSI_CTX_setAggregatorHmacAlgorithm(ctx, (size_t)alg); else KSI_CTX_setExtenderHmacAlgorithm(ctx, (size_t)alg);
	/* the other service is pinned to another algorithm: whichever is looked at must be this service's own */
	if (is_aggr) KSI_CTX_setExtenderHmacAlgorithm(ctx, (size_t)(alg == RH_SHA384 ? RH_SHA512 : RH_SHA384)); else KSI_CTX_setAggregatorHmacAlgorithm(ctx, (size_t)(alg == RH_SHA384 ? RH_SHA512 : RH_SHA384));
	if (kind == K_AGGR) {
		B.doc_len = ref_fake_imprint(RH_SHA256, 42, B.doc);
		KSI_DataHash_fromImprint(ctx, B.doc, B.doc_len, &hsh);
	}
	if (kind == K_EXT) {
		ext_source(&srcd);
		rs_serialize(&srcd, &sb);
		if (KSI_Signature_parse(ctx, sb.p, sb.n, &src) != KSI_OK) vf_harness_error("source signature refused");
		rs_aggr_root(&srcd, 0, B.root, &B.root_len, NULL);
	}
	if (CL_IS_SYNC(client)) {
		res = is_aggr ? KSI_CTX_setAggregator(ctx, aggr_uri(client, 0), login[0], key[0]) : KSI_CTX_setExtender(ctx, ext_uri(client, 0), login[0], key[0]);
		if (res != KSI_OK) vf_harness_error("set endpoint 0x%x", res);
		switch (kind) {
			case K_AGGR: res = KSI_Signature_signAggregated(ctx, hsh, 0, &sig); break;
			case K_EXT: res = KSI_Signature_extendTo(src, ctx, NULL, &sig); break;
			case K_ACONF: res = KSI_receiveAggregatorConfig(ctx, &cfg); break;
			default: res = KSI_receiveExtenderConfig(ctx, &cfg); break;
		}
		vf_count("impl_calls", 1);
		if (res != KSI_OK && (sig != NULL || cfg != NULL)) vf_fail("error-with-content", "%s %s %s: status 0x%x but an object was returned", KNAME[kind], CLNAME[client], MNAME[fam], res);
		if (res == KSI_OK && sig == NULL && cfg == NULL) { vf_fail("ok-without-content", "%s %s %s: KSI_OK but nothing returned", KNAME[kind], CLNAME[client], MNAME[fam]); res = KSI_UNKNOWN_ERROR; }
		if (res == KSI_OK) {
			*delivered = 1;
			if (sig) sig_content(sig, content); else cfg_string(cfg, content);
		}
		KSI_Config_free(cfg); cfg = NULL;
	} else {
		KSI_AsyncService *svc = NULL;
		KSI_AsyncHandle *hd = NULL, *out = NULL;
		int state = 0, err = 0;
		if (CL_IS_HA(client)) res = is_aggr ? KSI_SigningHighAvailabilityService_new(ctx, &svc) : KSI_ExtendingHighAvailabilityService_new(ctx, &svc);
		else res = is_aggr ? KSI_SigningAsyncService_new(ctx, &svc) : KSI_ExtendingAsyncService_new(ctx, &svc);
		if (res != KSI_OK) vf_harness_error("service new 0x%x", res);
		for (ep = 0; ep < B.nep; ep++) {
			const char *uri = is_aggr ? aggr_uri(client, ep) : ext_uri(client, ep);
			res = CL_IS_HA(client) ? KSI_AsyncService_addEndpoint(svc, uri, login[ep], key[ep]) : KSI_AsyncService_setEndpoint(svc, uri, login[ep], key[ep]);
			if (res != KSI_OK) vf_harness_error("endpoint %d: 0x%x", ep, res);
		}
		switch (kind) {
			case K_AGGR:
				res = KSI_AsyncSigningHandle_new(ctx, hsh, 0, &hd);
				if (res == KSI_OK) hsh = NULL;
				break;
			case K_EXT: res = KSI_AsyncExtendingHandle_new(ctx, src, NULL, &hd); break;
			case K_ACONF: {
				KSI_AggregationReq *rq = NULL;
				KSI_Config *c = NULL;
				KSI_AggregationReq_new(ctx, &rq); KSI_Config_new(ctx, &c); KSI_AggregationReq_setConfig(rq, c);
				res = KSI_AsyncAggregationHandle_new(ctx, rq, &hd);
				if (res != KSI_OK) KSI_AggregationReq_free(rq);
				break;
			}
			default: {
				KSI_ExtendReq *rq = NULL;
				KSI_Config *c = NULL;
				KSI_ExtendReq_new(ctx, &rq); KSI_Config_new(ctx, &c); KSI_ExtendReq_setConfig(rq, c);
				res = KSI_AsyncExtendHandle_new(ctx, rq, &hd);
				if (res != KSI_OK) KSI_ExtendReq_free(rq);
				break;
			}
		}
		if (res != KSI_OK) vf_harness_error("async handle 0x%x", res);
		if (push && client == CL_AHTTP && KSI_AsyncService_setOption(svc, KSI_ASYNC_OPT_PUSH_CONF_CALLBACK, (void *)push_cb) != KSI_OK) vf_harness_error("push conf callback option");
		res = KSI_AsyncService_addRequest(svc, hd);
		vf_count("impl_calls", 1);
		if (res != KSI_OK) { KSI_AsyncHandle_free(hd); vf_obs("add=%x", res); }
		else {
			int rounds = 0;
			for (rounds = 0; rounds < 80; rounds++) {
				size_t waiting = 0;
				out = NULL;
				res = KSI_AsyncService_run(svc, &out, &waiting);
				vf_count("impl_calls", 1);
				if (res != KSI_OK) break;
				if (out == NULL) { sn_now += 3; continue; }
				KSI_AsyncHandle_getState(out, &state);
				if (state == KSI_ASYNC_STATE_ERROR_NOTICE) { KSI_AsyncHandle_free(out); out = NULL; continue; }   /* HA: an endpoint failed, request still open */
				break;
			}
			if (out == NULL) {
				if (res == KSI_OK) { res = KSI_UNKNOWN_ERROR; vf_fail("async-no-completion", "%s %s %s(%ld): request neither answered nor failed within 80 rounds / 240 virtual seconds", KNAME[kind], CLNAME[client], MNAME[fam], arg); }
			} else {
				KSI_AsyncHandle_getError(out, &err);
				if (state == KSI_ASYNC_STATE_RESPONSE_RECEIVED && (kind == K_AGGR || kind == K_EXT)) {
					res = KSI_AsyncHandle_getSignature(out, &sig);
					if (res != KSI_OK && sig != NULL) vf_fail("error-with-content", "%s %s: getSignature 0x%x but a signature was returned", KNAME[kind], CLNAME[client], res);
					if (res == KSI_OK && sig == NULL) { vf_fail("ok-without-content", "%s %s: getSignature OK but NULL", KNAME[kind], CLNAME[client]); res = KSI_UNKNOWN_ERROR; }
					if (res == KSI_OK) { *delivered = 1; sig_content(sig, content); }
				} else if (state == KSI_ASYNC_STATE_PUSH_CONFIG_RECEIVED) {
					KSI_Config *c = NULL;
					res = KSI_AsyncHandle_getConfig(out, &c);
					if (res == KSI_OK && c != NULL) { *delivered = 1; cfg_string(c, content); }
					else if (res == KSI_OK) res = KSI_UNKNOWN_ERROR;
				} else if (state == KSI_ASYNC_STATE_RESPONSE_RECEIVED) {
					/* a response object for a configuration request: content of the wrong sort reached the caller */
					*delivered = 1; vb_put(content, "response-object-for-config-request", 35); res = KSI_OK;
				} else {
					res = err ? err : KSI_UNKNOWN_ERROR;
				}
				KSI_AsyncHandle_free(out);
			}
		}
		KSI_AsyncService_free(svc);
	}
	if (G_cb_calls) {
		/* configuration content reached the caller through the callback */
		*delivered = 1;
		vb_putvb(content, &G_cb);
		if (!push) vf_fail("callback-without-push", "%s %s: the configuration callback ran although none was registered for this exchange", KNAME[kind0], CLNAME[client]);
	}
	if (getenv("VF_DEBUG")) { fprintf(stderr, "[%s %s v%d %s(%ld)] res=0x%x delivered=%d\n", KNAME[kind0], CLNAME[client], version, MNAME[fam], arg, res, *delivered); KSI_ERR_statusDump(ctx, stderr); }
	KSI_Signature_free(sig); KSI_Signature_free(src); KSI_DataHash_free(hsh);
	KSI_CTX_free(ctx);
	B.ctx = NULL;
	vb_free(&sb);
	note_leak();
	return res;
}

/* reference: may content be delivered for what was sent? */
static int b_allowed(void) {
	int ep;
	for (ep = 0; ep < B.nep; ep++) {
		if (B.nreq[ep] == 0) continue;
		if (ra_authentic(B.sent[ep].p, B.sent[ep].n, B.kind, B.version, B.unpinned ? -1 : B.cfg_alg, B.key[ep], strlen(B.key[ep]), CL_IS_TCP(B.client))) return 1;
	}
	return 0;
}

/* the content the reference expects for the authentic response */
static void expected_content(int kind, int version, vbuf *o) {
	vb_reset(o);
	if (kind == K_AGGR) { if (B.have_view) rs_serialize(&B.view, o); }
	else if (kind == K_EXT) {
		rsig e;
		ext_source(&e);
		if (!B.have_cal) return;
		e.has_cal = 1; e.cal_pub_time = B.cal.cal_pub_time; e.cal_has_aggr = B.cal.cal_has_aggr; e.cal_aggr_time = B.cal.cal_aggr_time;
		memcpy(e.cal_input, B.cal.cal_input, B.cal.cal_input_len); e.cal_input_len = B.cal.cal_input_len;
		memcpy(e.cal, B.cal.cal, sizeof e.cal); e.ncal = B.cal.ncal;
		e.has_auth = 0; e.has_pub = 0;
		rs_serialize(&e, o);
	} else {
		char b[400];
		if (kind == K_ACONF && version == 2) snprintf(b, sizeof b, "max_level=17;aggr_algo=1;aggr_period=1000;max_req=12;cal_first=-;cal_last=-;uri=%s,", ACONF_URI);
		else if (kind == K_ACONF) snprintf(b, sizeof b, "max_level=17;aggr_algo=1;aggr_period=1000;max_req=-;cal_first=-;cal_last=-;uri=%s,", ACONF_URI);
		else snprintf(b, sizeof b, "max_level=-;aggr_algo=-;aggr_period=-;max_req=12;cal_first=%llu;cal_last=%llu;uri=%s,", 1136073600ULL + 1000, (unsigned long long)B_PHEAD, ECONF_URI);
		vb_put(o, b, strlen(b) + 1);
	}
}

/* canonical form of delivered signature bytes (reference parse + reference serialization) */
static int canon_sig(const vbuf *raw, vbuf *o) {
	rsig g;
	vb_reset(o);
	if (rs_parse(raw->p, raw->n, &g) != 0) return -1;
	rs_serialize(&g, o);
	return 0;
}

static const char *B_LOGIN[2] = {"c06-ep0", "c06-ep1"};
static const char *B_KEY[2] = {"c06-key-zero", "c06-other-1"};

/* authentic exchange; returns 1 and fills `base` when content was delivered */
static int b_baseline(int kind, int version, int client, int alg, const char *const login[2], const char *const key[2], vbuf *base, int check_expected) {
	int delivered = 0, res;
	vbuf exp, can;
	res = b_call(kind, version, client, alg, login, key, M_NONE, 0, base, &delivered);
	vf_obs("base res=%x d=%d n=%zu", res, delivered, base->n);
	if (B.req_bad) vf_fail("request-mac", "%s v%d %s: %s", KNAME[kind], version, CLNAME[client], B.req_why);
	if (!delivered) {
		vf_outcome("resp:authentic:refused");
		vf_fail("authentic-refused", "%s v%d %s alg %d: the authentic response (%zu bytes, MAC under the endpoint key and the configured algorithm) ended with 0x%x and no content", KNAME[kind], version, CLNAME[client], alg, B.sent[0].n, res);
		return 0;
	}
	vf_outcome("resp:authentic:delivered");
	if (!b_allowed()) vf_harness_error("the reference does not authenticate its own response (%s v%d)", KNAME[kind], version);
	if (KPUSH(kind)) {
		/* signature (checked by the plain kinds) followed by exactly one callback with the pushed values */
		char b[400];
		const char *at = NULL;
		size_t k;
		if (kind == K_APUSH) snprintf(b, sizeof b, "|CONF:max_level=17;aggr_algo=1;aggr_period=1000;max_req=12;cal_first=-;cal_last=-;uri=%s,", ACONF_URI);
		else snprintf(b, sizeof b, "|CONF:max_level=-;aggr_algo=-;aggr_period=-;max_req=12;cal_first=%llu;cal_last=%llu;uri=%s,", 1136073600ULL + 1000, (unsigned long long)B_PHEAD, ECONF_URI);
		for (k = 0; k + strlen(b) + 1 <= base->n; k++) if (memcmp(base->p + k, b, strlen(b) + 1) == 0) { at = (const char *)base->p + k; break; }
		if (G_cb_calls != 1 || at == NULL || k + strlen(b) + 1 != base->n)
			vf_fail("pushed-config", "%s v%d %s: authentic response with a pushed configuration: callback ran %d time(s), content tail '%s', expected '%s'", KNAME[kind], version, CLNAME[client], G_cb_calls, G_cb.n ? (const char *)G_cb.p : "", b);
		else if (k == 0) vf_fail("pushed-config", "%s v%d %s: the pushed configuration was delivered but the signature was not", KNAME[kind], version, CLNAME[client]);
		else vf_outcome("resp:authentic:pushed-config-delivered");
		return 1;
	}
	if (!check_expected) return 1;
	vb_init(&exp); vb_init(&can);
	expected_content(kind, version, &exp);
	if (kind == K_AGGR || kind == K_EXT) {
		if (canon_sig(base, &can) != 0) vf_fail("authentic-content", "%s v%d %s: delivered signature is not understood by the reference parser", KNAME[kind], version, CLNAME[client]);
		else if (can.n != exp.n || memcmp(can.p, exp.p, can.n) != 0) vf_fail("authentic-content", "%s v%d %s: delivered signature differs from the content of the authentic response (%zu vs %zu bytes)", KNAME[kind], version, CLNAME[client], can.n, exp.n);
	} else if (base->n != exp.n || memcmp(base->p, exp.p, exp.n) != 0) {
		/* the high-availability service hands out a consolidated configuration; what consolidation does is not C06's business */
		if (CL_IS_HA(client)) vf_outcome("note:ha-consolidated-config-differs");
		else vf_fail("authentic-content", "%s v%d %s: delivered configuration '%s', sent '%s'", KNAME[kind], version, CLNAME[client], (const char *)base->p, (const char *)exp.p);
	}
	vb_free(&exp); vb_free(&can);
	return 1;
}

/* one deviant exchange judged by the oracle */
static void b_deviant(int kind, int version, int client, int alg, const char *const login[2], const char *const key[2], int fam, long arg, const vbuf *base) {
	vbuf got;
	int delivered = 0, res, allowed;
	vb_init(&got);
	res = b_call(kind, version, client, alg, login, key, fam, arg, &got, &delivered);
	allowed = b_allowed();
	vf_obs("%d:%ld res=%x d=%d a=%d", fam, arg, res, delivered, allowed);
	if (B.req_bad) vf_fail("request-mac", "%s v%d %s: %s", KNAME[kind], version, CLNAME[client], B.req_why);
	if (delivered) {
		int same = got.n == base->n && memcmp(got.p, base->p, got.n) == 0;
		if (!allowed)
			vf_fail("delivered-unauthenticated", "%s v%d %s %s(%ld): content reached the caller although the reference does not authenticate the %zu bytes sent (authentic response %zu bytes)%s; sent: %s",
			        KNAME[kind], version, CLNAME[client], MNAME[fam], arg, B.sent[0].n, B.auth[0].n, same ? "" : " and the content differs from the authentic one", vf_hex(B.sent[0].p, B.sent[0].n > 120 ? 120 : B.sent[0].n));
		else if (!same)
			vf_fail("delivered-altered", "%s v%d %s %s(%ld): delivered content differs from the content of the authentic response", KNAME[kind], version, CLNAME[client], MNAME[fam], arg);
		vf_outcome("resp:%s:v%d:delivered-%s", MNAME[fam], version, allowed ? (same ? "identical" : "altered") : "UNAUTHENTICATED");
	} else {
		vf_outcome("resp:%s:v%d:refused%s", MNAME[fam], version, allowed ? "-though-authentic" : "");
		vf_count(res == KSI_NETWORK_RECIEVE_TIMEOUT ? "refused_by_timeout" : "refused_by_error", 1);
	}
	vb_free(&got);
}

/* length of the authentic response (the enumeration needs a bound before anything is run) */
static size_t dry_len(int kind, int version, int alg) {
	rp_req r;
	vbuf o;
	size_t n;
	rsig s;
	memset(&r, 0, sizeof r);
	b_reset();
	B.kind = kind; B.version = version; B.login[0] = B_LOGIN[0]; B.key[0] = B_KEY[0]; B.nep = 1;
	r.has_req = 1; r.req_id = 1; r.hash_len = ref_fake_imprint(RH_SHA256, 42, r.hash); r.has_hash = 1; r.has_aggr_time = 1; r.aggr_time = B_T0;
	ext_source(&s);
	rs_aggr_root(&s, 0, B.root, &B.root_len, NULL);
	vb_init(&o);
	build_response(&o, &r, 0, version, alg, B_KEY[0], strlen(B_KEY[0]), 0, 0);
	n = o.n;
	vb_free(&o);
	return n;
}

static int kind_exists(int kind, int version, int client) {
	if (KPUSH(kind)) return version == 2 && !CL_IS_HA(client);    /* pushed configurations through the HA service are consolidated: C15 */
	if (version == 2) return 1;
	if (kind == K_ECONF) return 0;                         /* no extender configuration in PDU v1 */
	if (kind == K_ACONF) return CL_IS_SYNC(client);        /* v1 aggregator configuration rides inside the response element: blocking client only */
	return 1;
}

#define CHUNK_BITS 256
#define CHUNK_TRUNC 128

static void part_b(void) {
	int kind, ver, cl;
	long c;
	for (kind = 0; kind < K_N; kind++) for (ver = 2; ver >= 1; ver--) {
		size_t n0 = 0;
		for (cl = 0; cl < CL_N; cl++) {
			int ai, fam, ki;
			long nbits, nchunks;
			if (!kind_exists(kind, ver, cl)) continue;
			if (n0 == 0) n0 = dry_len(kind, ver, RH_SHA256);

			/* ---- authentic responses: every MAC algorithm x key lengths around the block sizes */
			if (vf_case_begin("B:auth:%s:v%d:%s", KNAME[kind], ver, CLNAME[cl])) {
				static const int KL[] = {1, 64, 65, 129, 1000};
				vbuf base;
				vb_init(&base);
				for (ai = 0; ai < NMACALG; ai++) for (ki = 0; ki < 5; ki++) {
					const char *keys[2];
					char k1[1100];
					if (!ref_backend_supports(MACALGS[ai])) continue;
					if (!VF_THOROUGH && ki != 0 && ki != 2 && ai != 0) continue;
					keys[0] = make_key(KL[ki]);
					snprintf(k1, sizeof k1, "%s", keys[0]); k1[0] = (char)(k1[0] == '!' ? '#' : '!'); keys[1] = k1;
					if (b_baseline(kind, ver, cl, MACALGS[ai], B_LOGIN, keys, &base, 1)) vf_outcome("resp:authentic:alg%d:delivered", MACALGS[ai]);
				}
				vb_free(&base);
				vf_case_end(1);
			}

			/* ---- structural deviations */
			if (vf_case_begin("B:struct:%s:v%d:%s", KNAME[kind], ver, CLNAME[cl])) {
				vbuf base;
				vb_init(&base);
				if (b_baseline(kind, ver, cl, RH_SHA256, B_LOGIN, B_KEY, &base, 0)) {
					for (fam = M_KEY; fam < M_N; fam++) {
						long a, na = 1;
						if ((fam == M_EP0_BAD || fam == M_CROSS_KEY) && CL_NEP(cl) != 2) continue;
						if (fam == M_SPLICE) continue;
						if (fam >= M_ERRPLUS_BADMAC && ver != 2) continue;
						if (fam == M_KEY) na = NKEYVAR;
						if (fam == M_ALG || fam == M_ALG_UNPIN || fam == M_ALG_UNPIN_BADKEY) na = NMACALG;
						for (a = 0; a < na; a++) {
							long arg = a;
							if (fam == M_ALG || fam == M_ALG_UNPIN || fam == M_ALG_UNPIN_BADKEY) {
								arg = MACALGS[a];
								if (arg == RH_SHA256 || !ref_backend_supports((int)arg)) continue;
							}
							b_deviant(kind, ver, cl, RH_SHA256, B_LOGIN, B_KEY, fam, arg, &base);
						}
					}
					/* pinned to another algorithm than SHA-256: a SHA-256 MAC must not pass */
					if (ref_backend_supports(RH_SHA512)) {
						vbuf b2;
						vb_init(&b2);
						if (b_baseline(kind, ver, cl, RH_SHA512, B_LOGIN, B_KEY, &b2, 0)) b_deviant(kind, ver, cl, RH_SHA512, B_LOGIN, B_KEY, M_ALG, RH_SHA256, &b2);
						vb_free(&b2);
					}
				}
				vb_free(&base);
				vf_case_end(1);
			}

			/* ---- every single-bit flip (per MAC algorithm: the MAC element has another length and algorithm id) */
			for (ai = 0; ai < NMACALG; ai++) {
				int alg = MACALGS[ai];
				size_t na;
				if (!ref_backend_supports(alg)) continue;
				if (ai != 0 && !(VF_THOROUGH && (cl == CL_STCP || cl == CL_AHTTP))) continue;
				if (!VF_THOROUGH) {
					/* quick: all bits of every response kind through the blocking TCP client, the asynchronous HTTP client and the
					 * 2-endpoint HA service over TCP; the v2 aggregation response through every client */
					if (!(cl == CL_STCP || cl == CL_AHTTP || cl == CL_HA2T || (kind == K_AGGR && ver == 2))) continue;
				}
				na = ai == 0 ? n0 : dry_len(kind, ver, alg);
				nbits = (long)na * 8;
				nchunks = (nbits + CHUNK_BITS - 1) / CHUNK_BITS;
				for (c = 0; c < nchunks; c++) {
					vbuf base;
					long bit, done = 0;
					if (!vf_case_begin("B:flip:%s:v%d:%s:a%d:%ld", KNAME[kind], ver, CLNAME[cl], alg, c)) continue;
					vb_init(&base);
					if (b_baseline(kind, ver, cl, alg, B_LOGIN, B_KEY, &base, 0)) {
						long total = (long)B.auth[0].n * 8;
						if (B.auth[0].n != na) vf_harness_error("authentic response has %zu bytes, the enumeration assumed %zu", B.auth[0].n, na);
						for (bit = c * CHUNK_BITS; bit < (c + 1) * CHUNK_BITS && bit < total; bit++) { b_deviant(kind, ver, cl, alg, B_LOGIN, B_KEY, M_FLIP, bit, &base); done++; }
						vf_count("bit_flips", done);
						if (c == 0) vf_sample("flip: %s v%d via %s, MAC alg %d: bits %ld..%ld of the %zu-byte authentic response, each run to completion; delivered => reference authenticates the sent bytes and content identical", KNAME[kind], ver, CLNAME[cl], alg, c * CHUNK_BITS, c * CHUNK_BITS + done - 1, B.auth[0].n);
					}
					vb_free(&base);
					vf_case_end(done > 0);
				}
			}

			/* ---- every truncation, every splice point with another authentic response */
			for (fam = M_TRUNC; fam <= M_SPLICE; fam += M_SPLICE - M_TRUNC) {
				nchunks = ((long)n0 + CHUNK_TRUNC - 1) / CHUNK_TRUNC;
				for (c = 0; c < nchunks; c++) {
					vbuf base;
					long len, done = 0;
					if (!VF_THOROUGH && fam == M_TRUNC && !(cl == CL_STCP || cl == CL_SHTTP || cl == CL_ATCP || cl == CL_HA1H)) continue;
					if (!VF_THOROUGH && fam == M_SPLICE && !(cl == CL_SHTTP || cl == CL_ATCP || cl == CL_HA2H)) continue;
					if (!vf_case_begin("B:%s:%s:v%d:%s:%ld", MNAME[fam], KNAME[kind], ver, CLNAME[cl], c)) continue;
					vb_init(&base);
					if (b_baseline(kind, ver, cl, RH_SHA256, B_LOGIN, B_KEY, &base, 0)) {
						long total = (long)B.auth[0].n;
						if (B.auth[0].n != n0) vf_harness_error("authentic response has %zu bytes, the enumeration assumed %zu", B.auth[0].n, n0);
						for (len = c * CHUNK_TRUNC; len < (c + 1) * CHUNK_TRUNC && len < total; len++) { b_deviant(kind, ver, cl, RH_SHA256, B_LOGIN, B_KEY, fam, len, &base); done++; }
						vf_count(fam == M_TRUNC ? "truncations" : "splices", done);
					}
					vb_free(&base);
					vf_case_end(done > 0);
				}
			}
		}
	}
}

static void run(void) {
	vb_init(&G_cb);
	part_a();
	g_hdrcb = 0; g_rekey = 0;
	part_b();
}

int main(int argc, char **argv) {
	vf_driver d = {"C06", run};
	return vf_main(argc, argv, &d);
}
