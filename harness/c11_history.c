/* C11 - signatures are kept byte-exact; verification is repeatable and non-mutating.
 *
 * Exhaustive enumeration of operation histories on ONE shared KSI_CTX. A history is parse(s0) for one of the 4
 * canonical signatures followed by every applicable sequence of at most L further operations over the alphabet
 * built by build_ops() (an operation is applicable when the slot it names holds a live signature). After every
 * operation: (a) every live signature serializes to the bytes it was created with, (b) every verdict / derived
 * signature equals the result of the same call on a FRESH context with a freshly parsed copy (tabulated lazily
 * per process), (c) at the end no SDK allocation stays live. */
#include "anchor_fix.h"
#include <ksi/signature_builder.h>
#include <ksi/impl/policy_impl.h>

#define NCAN 4
#define NSLOT 3
#define MAXLEN 6

enum { P_INTERNAL = 0, P_USERPUB, P_PUBFILE, P_KEY, P_CALENDAR, P_GENERAL, P_FALLBACK, P_NPOL };
static const char *PNAME[P_NPOL] = {"internal", "userpub", "pubfile", "key", "calendar", "general", "userpub-then-internal"};
enum { D_NONE = 0, D_MATCH, D_OTHER, D_NDOC };
static const char *DNAME[D_NDOC] = {"none", "matching", "other"};
#define NLEVEL 4
static const unsigned LEVELS[NLEVEL] = {0, 1, 200, 300};
enum { DV_EXTEND = 0, DV_PREPEND, DV_ADDROOT };
static const char *DVNAME[] = {"extend", "prepend", "addroot"};

static const KSI_Policy *policy_of(int p) {
	switch (p) {
		case P_INTERNAL: return KSI_VERIFICATION_POLICY_INTERNAL;
		case P_USERPUB: return KSI_VERIFICATION_POLICY_USER_PUBLICATION_BASED;
		case P_PUBFILE: return KSI_VERIFICATION_POLICY_PUBLICATIONS_FILE_BASED;
		case P_KEY: return KSI_VERIFICATION_POLICY_KEY_BASED;
		case P_CALENDAR: return KSI_VERIFICATION_POLICY_CALENDAR_BASED;
		case P_FALLBACK: {
			/* a user policy with a fallback: the user-publication policy (inconclusive here: no user publication is supplied)
			 * falling back to the internal policy (a policy object is a plain structure: rules, fallback, name) */
			static KSI_Policy fb;
			static int init;
			if (!init) { fb = *KSI_VERIFICATION_POLICY_USER_PUBLICATION_BASED; fb.fallbackPolicy = KSI_VERIFICATION_POLICY_INTERNAL; init = 1; }
			return &fb;
		}
		default: return KSI_VERIFICATION_POLICY_GENERAL;
	}
}

/* ------------------------------------------------------------------ what the harness knows about a signature */
typedef struct {
	vbuf bytes; uint64_t key;                  /* serialization it was created with; fnv of it */
	int origin, prep, extd, addlc;             /* canonical ancestor; a local chain was prepended; extended; root level added */
	unsigned char doc[RH_MAX_IMPRINT]; size_t doc_len;
	unsigned char root[RH_MAX_IMPRINT]; size_t root_len;      /* aggregation root = what an honest calendar holds at FX_T0 */
	int has_pub; uint64_t pub_time; unsigned char pub_hash[RH_MAX_IMPRINT]; size_t pub_hash_len;
	unsigned char cal0[RH_MAX_IMPRINT], cal1[RH_MAX_IMPRINT]; size_t cal0_len, cal1_len;   /* virtual calendar roots at FX_P0 / FX_P1 */
} sdesc;

static void desc_copy(sdesc *to, const sdesc *from) {
	*to = *from;
	vb_init(&to->bytes);
	vb_put(&to->bytes, from->bytes.p, from->bytes.n);
}
static void desc_free(sdesc *d) { vb_free(&d->bytes); memset(d, 0, sizeof *d); }
static void desc_set_bytes(sdesc *d, const unsigned char *p, size_t n) {
	vb_reset(&d->bytes);
	vb_put(&d->bytes, p, n);
	d->key = vf_fnv(p, n, 0x11);
}
static void desc_set_root(sdesc *d, const unsigned char *root, size_t n) {
	memcpy(d->root, root, n); d->root_len = n;
	fx_cal_root(root, n, FX_P0, d->cal0, &d->cal0_len);
	fx_cal_root(root, n, FX_P1, d->cal1, &d->cal1_len);
}

/* ------------------------------------------------------------------ canonical signatures */
/* form (tail), first level correction, start level at which the signature's document hash is the root of its local chain
 * (-1: never), single aggregation chain */
static const int CAN_FORM[NCAN] = {0, 1, 2, 3}, CAN_LC[NCAN] = {1, 4, 3, 3}, CAN_PL[NCAN] = {0, 3, 0, -1}, CAN_SINGLE[NCAN] = {1, 0, 0, 0};
typedef struct { rsig model; sdesc d; rs_chain local; } canon_t;
static canon_t CAN[NCAN];
static int canon_ready;
#define NGARBAGE 3
static vbuf GARBAGE[NGARBAGE];
static const char *GNAME[NGARBAGE] = {"truncated", "wrong-tag", "inconsistent-chain-index"};

static void build_canon(void) {
	int k;
	if (canon_ready) return;
	canon_ready = 1;
	fx_pki();
	for (k = 0; k < NCAN; k++) {
		canon_t *c = &CAN[k];
		rs_params p;
		unsigned char root[RH_MAX_IMPRINT];
		size_t rl = 0;
		memset(&c->local, 0, sizeof c->local);
		c->local.alg = RH_SHA256;
		c->local.input_len = ref_fake_imprint(RH_SHA256, 40 + (unsigned)k, c->local.input);
		c->local.nlinks = 1;
		ref_link_imprint(&c->local.links[0], 1, RH_SHA256, 60 + (unsigned)k, 0);
		rs_default_params(&p);
		if (CAN_SINGLE[k]) {
			p.nchains = 1; p.nlinks[0] = 2; p.chain_alg[0] = RH_SHA256;
			p.link_desc[0][0] = 0u | ((unsigned)CAN_LC[k] << 3); p.link_desc[0][1] = 1 | (1 << 1);
		} else {
			p.nchains = 2; p.nlinks[0] = 2; p.nlinks[1] = 1; p.chain_alg[0] = p.chain_alg[1] = RH_SHA256;
			p.link_desc[0][0] = 0u | ((unsigned)CAN_LC[k] << 3); p.link_desc[0][1] = 1 | (1 << 1); p.link_desc[1][0] = 1 | (2 << 1);   /* legacy id in the first chain, a metadata sibling in the second */
		}
		p.aggr_time = FX_T0; p.pub_time = FX_P0; p.tail = CAN_FORM[k]; p.doc_seed = 1 + (unsigned)k;
		rs_build(&c->model, &p);
		if (CAN_PL[k] >= 0) {
			unsigned char o[RH_MAX_IMPRINT];
			size_t ol = 0;
			int lvl = 0;
			if (ref_chain_aggregate(RH_SHA256, c->local.input, c->local.input_len, CAN_PL[k], c->local.links, 1, o, &ol, &lvl) != 0) vf_harness_error("local chain");
			memcpy(c->model.ch[0].input, o, ol); c->model.ch[0].input_len = ol;
			if (rs_fix(&c->model, RS_FIX_ALL & ~RS_FIX_RFC) != 0) vf_harness_error("rs_fix");
		}
		if (CAN_FORM[k] == 3) rk_sign_auth_record(&c->model, &fx_auth_cert);
		memset(&c->d, 0, sizeof c->d);
		vb_init(&c->d.bytes);
		{
			vbuf b;
			vb_init(&b);
			rs_serialize(&c->model, &b);
			desc_set_bytes(&c->d, b.p, b.n);
			vb_free(&b);
		}
		c->d.origin = k;
		memcpy(c->d.doc, c->model.ch[0].input, c->model.ch[0].input_len); c->d.doc_len = c->model.ch[0].input_len;
		if (rs_aggr_root(&c->model, 0, root, &rl, NULL) != 0) vf_harness_error("aggregation root");
		desc_set_root(&c->d, root, rl);
		c->d.has_pub = c->model.has_pub; c->d.pub_time = c->model.pub_time;
		memcpy(c->d.pub_hash, c->model.pub_hash, c->model.pub_hash_len); c->d.pub_hash_len = c->model.pub_hash_len;
	}
	/* malformed inputs */
	for (k = 0; k < NGARBAGE; k++) vb_init(&GARBAGE[k]);
	vb_put(&GARBAGE[0], CAN[1].d.bytes.p, CAN[1].d.bytes.n - 5);
	vb_put(&GARBAGE[1], CAN[2].d.bytes.p, CAN[2].d.bytes.n); GARBAGE[1].p[1] = 0x01;     /* outer tag 0x0800 -> 0x0801 */
	{
		rsig m = CAN[2].model;
		m.ch[0].index[m.ch[0].nindex - 1] ^= 1;                                            /* INT-10 */
		rs_serialize(&m, &GARBAGE[2]);
	}
}

/* ------------------------------------------------------------------ a world: one context + the trust anchors parsed on it */
typedef struct { uint64_t key; KSI_PublicationsFile *upf[2]; KSI_PublicationData *upd; } anchor_t;   /* upf[0]: publications only; upf[1]: + calendar key certificate */
#define MAXANCH 12
typedef struct {
	KSI_CTX *ctx;
	anchor_t a[MAXANCH]; int na;
	KSI_AggregationHashChain *local[NCAN];     /* local aggregation chain objects the caller holds (one per canonical ancestor) */
	int local_tried[NCAN];                     /* number of failed prepends the held object went through */
	int last_prepend_retry;
	long log_msgs;
	KSI_VerificationContext app_vc; int have_app_vc;   /* the application's own verification context, kept for the life of the context */
} world_t;

static int discard_log(void *logCtx, int level, const char *message) {
	(void)level;
	if (message != NULL) ((world_t *)logCtx)->log_msgs++;
	return KSI_OK;
}

/* like fx_ctx(1, 0) without the PKI trust store: the publications files are handed over by the caller (userPublicationsFile), which the
 * SDK never PKI-verifies, so the trust store would only cost time (reading the CA file dominates a short history) */
static void world_open(world_t *w) {
	static KSI_CertConstraint c[2];
	memset(w, 0, sizeof *w);
	w->ctx = ku_ctx();
	memset(c, 0, sizeof c);
	c[0].oid = KSI_CERT_EMAIL; c[0].val = FX_EMAIL;
	if (KSI_CTX_setDefaultPubFileCertConstraints(w->ctx, c) != KSI_OK) vf_harness_error("cert constraints");
	if (KSI_CTX_setExtender(w->ctx, "ksi+tcp://ext.fx.test:3331", FX_LOGIN, FX_KEY) != KSI_OK) vf_harness_error("setExtender");
	if (KSI_CTX_setLoggerCallback(w->ctx, discard_log, w) != KSI_OK) vf_harness_error("setLoggerCallback");
	if (KSI_CTX_setLogLevel(w->ctx, KSI_LOG_NONE) != KSI_OK) vf_harness_error("setLogLevel");
	if (getenv("C11_DEBUG") && atoi(getenv("C11_DEBUG")) > 1) { KSI_CTX_setLoggerCallback(w->ctx, KSI_LOG_StreamLogger, stderr); KSI_CTX_setLogLevel(w->ctx, KSI_LOG_DEBUG); }
}
static void world_close(world_t *w) {
	int i;
	for (i = 0; i < w->na; i++) { KSI_PublicationsFile_free(w->a[i].upf[0]); KSI_PublicationsFile_free(w->a[i].upf[1]); KSI_PublicationData_free(w->a[i].upd); }
	for (i = 0; i < NCAN; i++) KSI_AggregationHashChain_free(w->local[i]);
	if (w->have_app_vc) KSI_VerificationContext_clean(&w->app_vc);
	KSI_CTX_free(w->ctx);
	memset(w, 0, sizeof *w);
}

/* publications file bytes per aggregation root (PKCS#7 signing is expensive): early publication, FX_P0 and FX_P1 roots, optionally the calendar
 * key certificate (parsing the certificate record doubles the cost of parsing the file, so only the key-based policy gets it) */
typedef struct { uint64_t key; vbuf bytes; } pf_entry;
static pf_entry PFC[64];
static int npfc;
static const vbuf *pubfile_bytes(const sdesc *d, int with_cert) {
	uint64_t key = vf_fnv(d->root, d->root_len, with_cert ? 0x23 : 0x22);
	uint64_t times[3] = {FX_PE, FX_P0, FX_P1};
	unsigned char hashes[3][RH_MAX_IMPRINT];
	size_t hlens[3];
	const rk_cert *certs[1] = {&fx_auth_cert};
	int i;
	for (i = 0; i < npfc; i++) if (PFC[i].key == key) return &PFC[i].bytes;
	if (npfc == 64) vf_harness_error("publications file cache full");
	hlens[0] = ref_fake_imprint(RH_SHA256, 11, hashes[0]);
	memcpy(hashes[1], d->cal0, d->cal0_len); hlens[1] = d->cal0_len;
	memcpy(hashes[2], d->cal1, d->cal1_len); hlens[2] = d->cal1_len;
	PFC[npfc].key = key;
	vb_init(&PFC[npfc].bytes);
	fx_make_pubfile(&PFC[npfc].bytes, 3, times, hashes, hlens, with_cert ? 1 : 0, certs, &fx_pub_signer);
	return &PFC[npfc++].bytes;
}

/* need_file: 0 none, 1 publications only, 2 with certificate */
static anchor_t *anchor_for(world_t *w, const sdesc *d, int need_file, int need_pub) {
	uint64_t key = vf_fnv(d->root, d->root_len, d->has_pub ? 0x33 : 0x44);
	anchor_t *a = NULL;
	int i;
	for (i = 0; i < w->na; i++) if (w->a[i].key == key) a = &w->a[i];
	if (a == NULL) {
		if (w->na == MAXANCH) vf_harness_error("anchor table full");
		a = &w->a[w->na++];
		memset(a, 0, sizeof *a);
		a->key = key;
	}
	if (need_file && a->upf[need_file - 1] == NULL) {
		const vbuf *pf = pubfile_bytes(d, need_file == 2);
		if (KSI_PublicationsFile_parse(w->ctx, pf->p, pf->n, &a->upf[need_file - 1]) != KSI_OK) vf_harness_error("fixture publications file refused");
	}
	if (need_pub && a->upd == NULL) {
		/* the signature's own publication, or a later one that needs the extender */
		if (d->has_pub) a->upd = fx_pubdata(w->ctx, d->pub_time, d->pub_hash, d->pub_hash_len);
		else a->upd = fx_pubdata(w->ctx, FX_P1, d->cal1, d->cal1_len);
	}
	return a;
}

static void server_for(const sdesc *d, int ext) {
	FXS.ext_behaviour = ext;
	memcpy(FXS.root, d->root, d->root_len); FXS.root_len = d->root_len;
}

/* ------------------------------------------------------------------ the operations proper (used on the shared and on fresh contexts alike) */
typedef struct { int rc, res, err, rc2; } verdict;   /* rc2: the helper call with the application's long-lived verification context (internal policy) */
static long g_calls;

static void do_verify(world_t *w, KSI_Signature *sig, const sdesc *d, int pol, int doc, int lvl, int ext, verdict *v) {
	KSI_VerificationContext vc;
	KSI_PolicyVerificationResult *res = NULL;
	KSI_DataHash *h = NULL;
	int need_file = pol == P_KEY ? 2 : (pol == P_PUBFILE || pol == P_GENERAL) ? 1 : 0;
	anchor_t *a = anchor_for(w, d, need_file, pol == P_USERPUB);
	if (KSI_VerificationContext_init(&vc, w->ctx) != KSI_OK) vf_harness_error("VerificationContext_init");
	vc.signature = sig;
	vc.docAggrLevel = LEVELS[lvl];
	vc.extendingAllowed = 1;
	if (doc != D_NONE) {
		unsigned char x[RH_MAX_IMPRINT];
		memcpy(x, d->doc, d->doc_len);
		if (doc == D_OTHER) x[d->doc_len - 1] ^= 0x10;
		if (KSI_DataHash_fromImprint(w->ctx, x, d->doc_len, &h) != KSI_OK) vf_harness_error("document hash object");
		vc.documentHash = h;
	}
	if (pol == P_USERPUB) vc.userPublication = a->upd;
	if (need_file) vc.userPublicationsFile = a->upf[need_file - 1];
	server_for(d, ext);
	v->rc = KSI_SignatureVerifier_verify(policy_of(pol), &vc, &res);
	g_calls++;
	v->res = (v->rc == KSI_OK && res) ? (int)res->finalResult.resultCode : -1;
	v->err = (v->rc == KSI_OK && res) ? (int)res->finalResult.errorCode : -1;
	KSI_PolicyVerificationResult_free(res);
	KSI_VerificationContext_clean(&vc);
	v->rc2 = 0;
	if (pol == P_INTERNAL) {
		/* the same question through the helper, with the verification context the application keeps for all its calls: what an
		 * earlier call was given explicitly (hash, level) must not stay behind in it */
		if (!w->have_app_vc) { if (KSI_VerificationContext_init(&w->app_vc, w->ctx) != KSI_OK) vf_harness_error("VerificationContext_init"); w->have_app_vc = 1; }
		v->rc2 = KSI_Signature_verifyWithPolicy(sig, h, LEVELS[lvl], KSI_VERIFICATION_POLICY_INTERNAL, &w->app_vc);
		g_calls++;
	}
	KSI_DataHash_free(h);
}

/* a local aggregation chain as a tree builder hands it out: no aggregation time, no chain index */
static KSI_AggregationHashChain *make_local(KSI_CTX *ctx, int k) {
	const rs_chain *m = &CAN[k].local;
	KSI_AggregationHashChain *c = NULL;
	KSI_LIST(KSI_HashChainLink) *links = NULL;
	KSI_HashChainLink *l = NULL;
	KSI_DataHash *in = NULL, *sib = NULL;
	KSI_Integer *alg = NULL;
	if (KSI_AggregationHashChain_new(ctx, &c) != KSI_OK || KSI_HashChainLinkList_new(&links) != KSI_OK || KSI_HashChainLink_new(ctx, &l) != KSI_OK
		|| KSI_DataHash_fromImprint(ctx, m->links[0].sib, m->links[0].sib_len, &sib) != KSI_OK
		|| KSI_DataHash_fromImprint(ctx, m->input, m->input_len, &in) != KSI_OK || KSI_Integer_new(ctx, RH_SHA256, &alg) != KSI_OK) vf_harness_error("local chain objects");
	if (KSI_HashChainLink_setIsLeft(l, 1) != KSI_OK || KSI_HashChainLink_setImprint(l, sib) != KSI_OK || KSI_HashChainLinkList_append(links, l) != KSI_OK
		|| KSI_AggregationHashChain_setChain(c, links) != KSI_OK || KSI_AggregationHashChain_setInputHash(c, in) != KSI_OK
		|| KSI_AggregationHashChain_setAggrHashId(c, alg) != KSI_OK) vf_harness_error("local chain assembly");
	return c;
}

static int do_derive(world_t *w, KSI_Signature *src, const sdesc *d, int kind, int param, KSI_Signature **out) {
	KSI_SignatureBuilder *b = NULL;
	int rc;
	*out = NULL;
	w->last_prepend_retry = 0;
	switch (kind) {
		case DV_EXTEND:
			server_for(d, param);
			rc = KSI_Signature_extend(src, w->ctx, NULL, out);
			g_calls++;
			break;
		case DV_PREPEND: {
			int k = d->origin;
			KSI_Integer *t = NULL;
			KSI_LIST(KSI_Integer) *ix = NULL;
			/* the caller keeps its chain object until the builder has taken it over: a prepend refused before the chain was touched
			 * (level does not fit) is retried with the same object */
			if (w->local[k] == NULL) { w->local[k] = make_local(w->ctx, k); w->local_tried[k] = 0; }
			w->last_prepend_retry = w->local_tried[k] > 0;
			rc = KSI_SignatureBuilder_openFromSignature(src, &b);
			if (rc == KSI_OK) rc = KSI_SignatureBuilder_setAggregationChainStartLevel(b, (KSI_uint64_t)param);
			/* the sequence the SDK's own block signer uses (KSI_SignatureBuilder_createSignatureWithAggregationChain does not hand the
			 * start level to the builder it works on, so it only ever works for start level 0) */
			if (rc == KSI_OK && param == 0) {
				/* start level 0: the one-call form that leaves the builder (and the signature it was opened from) reusable */
				rc = KSI_SignatureBuilder_createSignatureWithAggregationChain(b, w->local[k], out);
			} else {
				if (rc == KSI_OK) rc = KSI_SignatureBuilder_appendAggregationChain(b, w->local[k]);
				if (rc == KSI_OK) rc = KSI_SignatureBuilder_close(b, (KSI_uint64_t)param, out);
			}
			g_calls += 4;
			KSI_SignatureBuilder_free(b);
			KSI_AggregationHashChain_getAggregationTime(w->local[k], &t);
			KSI_AggregationHashChain_getChainIndex(w->local[k], &ix);
			if (rc == KSI_OK || t != NULL || ix != NULL) { KSI_AggregationHashChain_free(w->local[k]); w->local[k] = NULL; w->local_tried[k] = 0; }
			else w->local_tried[k]++;
			break;
		}
		default:
			rc = KSI_SignatureBuilder_openFromSignature(src, &b);
			if (rc == KSI_OK) rc = KSI_SignatureBuilder_close(b, (KSI_uint64_t)param, out);
			g_calls += 2;
			KSI_SignatureBuilder_free(b);
			break;
	}
	if (rc != KSI_OK && getenv("C11_DEBUG")) { fprintf(stderr, "derive %s %d -> 0x%x\n", DVNAME[kind], param, rc); KSI_ERR_statusDump(w->ctx, stderr); }
	if (rc != KSI_OK && *out != NULL) { KSI_Signature_free(*out); *out = NULL; }
	return rc;
}

/* ------------------------------------------------------------------ reference results on fresh contexts, tabulated lazily */
typedef struct { uint64_t sig; int a, b, c, e; int used; verdict v; } vc_entry;
#define VCN 16384
static vc_entry VC[VCN];
static long ref_computed;

static KSI_Signature *fresh_parse(world_t *w, const sdesc *d) {
	KSI_Signature *sig = NULL;
	if (KSI_Signature_parseWithPolicy(w->ctx, d->bytes.p, d->bytes.n, KSI_VERIFICATION_POLICY_EMPTY, NULL, &sig) != KSI_OK || sig == NULL)
		vf_harness_error("reference run: signature (origin %d prep %d extd %d) does not parse on a fresh context", d->origin, d->prep, d->extd);
	return sig;
}

static verdict ref_verdict(const sdesc *d, int pol, int doc, int lvl, int ext) {
	uint64_t h = d->key ^ ((uint64_t)(pol * 1000 + doc * 100 + lvl * 10 + ext) * 0x9e3779b97f4a7c15ULL);
	unsigned i = (unsigned)(h >> 20) & (VCN - 1), n = 0;
	world_t w;
	KSI_Signature *sig;
	for (;; i = (i + 1) & (VCN - 1)) {
		vc_entry *e = &VC[i];
		if (!e->used) break;
		if (e->sig == d->key && e->a == pol && e->b == doc && e->c == lvl && e->e == ext) return e->v;
		if (++n > VCN / 2) vf_harness_error("verdict table full");
	}
	world_open(&w);
	sig = fresh_parse(&w, d);
	VC[i].sig = d->key; VC[i].a = pol; VC[i].b = doc; VC[i].c = lvl; VC[i].e = ext; VC[i].used = 1;
	do_verify(&w, sig, d, pol, doc, lvl, ext, &VC[i].v);
	KSI_Signature_free(sig);
	world_close(&w);
	ref_computed++;
	return VC[i].v;
}

typedef struct { uint64_t sig; int kind, param, used, rc; vbuf bytes; } dv_entry;
#define DVN 4096
static dv_entry DV[DVN];

static const dv_entry *ref_derive(const sdesc *d, int kind, int param) {
	uint64_t h = d->key ^ ((uint64_t)(kind * 1000 + param + 7) * 0x9e3779b97f4a7c15ULL);
	unsigned i = (unsigned)(h >> 20) & (DVN - 1), n = 0;
	world_t w;
	KSI_Signature *sig, *out = NULL;
	for (;; i = (i + 1) & (DVN - 1)) {
		dv_entry *e = &DV[i];
		if (!e->used) break;
		if (e->sig == d->key && e->kind == kind && e->param == param) return e;
		if (++n > DVN / 2) vf_harness_error("derivation table full");
	}
	world_open(&w);
	sig = fresh_parse(&w, d);
	DV[i].sig = d->key; DV[i].kind = kind; DV[i].param = param; DV[i].used = 1;
	vb_init(&DV[i].bytes);
	DV[i].rc = do_derive(&w, sig, d, kind, param, &out);
	if (DV[i].rc == KSI_OK) {
		unsigned char *raw = NULL;
		size_t rl = 0;
		if (out == NULL || KSI_Signature_serialize(out, &raw, &rl) != KSI_OK) vf_harness_error("reference run: derived signature does not serialize");
		vb_put(&DV[i].bytes, raw, rl);
		KSI_free(raw);
	}
	KSI_Signature_free(out);
	KSI_Signature_free(sig);
	world_close(&w);
	ref_computed++;
	return &DV[i];
}

/* ------------------------------------------------------------------ alphabet */
enum { K_PARSE = 0, K_GARBAGE, K_LOG, K_CLONE, K_SERIALIZE, K_VERIFY, K_EXTEND, K_PREPEND, K_ADDROOT, K_GETTERS };
typedef struct { int kind, slot, a, b, c, d, sub; } op_t;
#define MAXOPS 400
static op_t OPS[MAXOPS];
static int NOPS, PARSE_OP[NCAN];
static const int EXT_EXTEND[3] = {FXE_CORRECT, FXE_ERROR_STATUS, FXE_OTHER_INPUT};
static const int PREP_LEVELS[3] = {0, 3, 250};
static const int ROOT_LEVELS[2] = {2, 300};

static void add_op(int kind, int slot, int a, int b, int c, int d, int sub) {
	op_t *o;
	if (NOPS == MAXOPS) vf_harness_error("operation table full");
	o = &OPS[NOPS++];
	o->kind = kind; o->slot = slot; o->a = a; o->b = b; o->c = c; o->d = d; o->sub = sub;
}

/* deterministic order: global operations first, then per slot. `sub` marks the sub-alphabet that touches caches and state
 * (levels on the same signature, failing operations, clone, extend, prepend with the held chain, log level) */
static void build_ops(void) {
	int k, s, pol, doc, lvl;
	if (NOPS) return;
	for (k = 0; k < NCAN; k++) { PARSE_OP[k] = NOPS; add_op(K_PARSE, -1, k, 0, 0, 0, k == 0 || k == 2); }
	for (k = 0; k < NGARBAGE; k++) add_op(K_GARBAGE, -1, k, 0, 0, 0, k == 2);
	add_op(K_LOG, -1, KSI_LOG_NONE, 0, 0, 0, 0);
	add_op(K_LOG, -1, KSI_LOG_DEBUG, 0, 0, 0, 1);
	for (s = 0; s < NSLOT; s++) {
		int ss = s < 2;
		add_op(K_CLONE, s, 0, 0, 0, 0, ss);
		add_op(K_SERIALIZE, s, 0, 0, 0, 0, 0);
		add_op(K_GETTERS, s, 0, 0, 0, 0, ss);
		for (pol = 0; pol < P_NPOL; pol++) for (doc = 0; doc < D_NDOC; doc++) for (lvl = 0; lvl < NLEVEL; lvl++) {
			int sub = ss && ((pol == P_INTERNAL && doc == D_NONE && lvl != 2) || (pol == P_INTERNAL && doc == D_OTHER && lvl == 0) || (pol == P_CALENDAR && doc == D_NONE && lvl == 0));
			add_op(K_VERIFY, s, pol, doc, lvl, FXE_CORRECT, sub);
		}
		add_op(K_VERIFY, s, P_CALENDAR, D_NONE, 0, FXE_ERROR_STATUS, ss);
		add_op(K_VERIFY, s, P_CALENDAR, D_NONE, 0, FXE_OTHER_INPUT, 0);
		for (k = 0; k < 3; k++) add_op(K_EXTEND, s, EXT_EXTEND[k], 0, 0, 0, ss && k < 2);
		for (k = 0; k < 3; k++) add_op(K_PREPEND, s, PREP_LEVELS[k], 0, 0, 0, ss && k < 2);
		for (k = 0; k < 2; k++) add_op(K_ADDROOT, s, ROOT_LEVELS[k], 0, 0, 0, 0);
	}
}

static const char *op_text(const op_t *o) {
	static char b[4][160];
	static int r;
	char *p = b[r++ & 3];
	switch (o->kind) {
		case K_PARSE: snprintf(p, 160, "parse(sig%d)", o->a); break;
		case K_GARBAGE: snprintf(p, 160, "parse(garbage:%s)", GNAME[o->a]); break;
		case K_LOG: snprintf(p, 160, "loglevel(%s)", o->a == KSI_LOG_NONE ? "none" : "debug"); break;
		case K_CLONE: snprintf(p, 160, "clone(slot%d)", o->slot); break;
		case K_SERIALIZE: snprintf(p, 160, "serialize(slot%d)", o->slot); break;
		case K_GETTERS: snprintf(p, 160, "getters(slot%d)", o->slot); break;
		case K_VERIFY: snprintf(p, 160, "verify(slot%d,%s,doc=%s,level=%u,extender=%s)", o->slot, PNAME[o->a], DNAME[o->b], LEVELS[o->c], FXE_NAME[o->d]); break;
		case K_EXTEND: snprintf(p, 160, "extend(slot%d,extender=%s)", o->slot, FXE_NAME[o->a]); break;
		case K_PREPEND: snprintf(p, 160, "prepend(slot%d,startlevel=%d)", o->slot, o->a); break;
		default: snprintf(p, 160, "addrootlevel(slot%d,%d)", o->slot, o->a); break;
	}
	return p;
}

/* ------------------------------------------------------------------ abstract slot model: decides applicability during the (cheap) enumeration */
typedef struct { int occ, origin, prep, extd; long age; } aslot;
typedef struct { aslot s[NSLOT]; long clock; } astate;

static int abs_place(const astate *st) {
	int i, best = 0;
	for (i = 0; i < NSLOT; i++) if (!st->s[i].occ) return i;
	for (i = 1; i < NSLOT; i++) if (st->s[i].age < st->s[best].age) best = i;
	return best;
}
/* returns 0 when the operation is not applicable; *newidx = slot receiving a new signature or -1 */
static int abs_apply(astate *st, const op_t *o, int *newidx) {
	aslot n;
	int creates = 0, i;
	*newidx = -1;
	memset(&n, 0, sizeof n);
	if (o->slot >= 0) {
		if (!st->s[o->slot].occ) return 0;
		n = st->s[o->slot];
	}
	switch (o->kind) {
		case K_PARSE: n.origin = o->a; n.prep = n.extd = 0; creates = 1; break;
		case K_CLONE: creates = 1; break;
		case K_EXTEND: if (o->a == FXE_CORRECT) { creates = 1; n.extd = 1; } break;
		case K_PREPEND: if (!n.prep && CAN_PL[n.origin] == o->a) { creates = 1; n.prep = 1; } break;
		case K_ADDROOT: if (o->a <= 255 && CAN_SINGLE[n.origin] && CAN_FORM[n.origin] == 0 && !n.prep && !n.extd) creates = 1; break;
		default: break;
	}
	if (creates) {
		i = abs_place(st);
		n.occ = 1; n.age = ++st->clock;
		st->s[i] = n;
		*newidx = i;
	}
	return 1;
}

/* ------------------------------------------------------------------ running one history */
typedef struct { KSI_Signature *sig; sdesc d; } slot_t;
typedef struct {
	world_t w;
	slot_t s[NSLOT];
	astate a;
	int failed, aborted;
	int opno; const op_t *op;
	long transitions;
} hist_t;
static hist_t H;

#define FAIL(sig, ...) do { H.failed = 1; vf_fail(sig, __VA_ARGS__); } while (0)

static size_t first_diff(const unsigned char *a, size_t an, const unsigned char *b, size_t bn) {
	size_t i, n = an < bn ? an : bn;
	for (i = 0; i < n; i++) if (a[i] != b[i]) return i;
	return n;
}

static void check_all(void) {
	int i;
	KSI_Signature *lf = NULL;
	for (i = 0; i < NSLOT; i++) {
		unsigned char *raw = NULL;
		size_t rl = 0;
		int rc;
		if (H.s[i].sig == NULL) continue;
		rc = KSI_Signature_serialize(H.s[i].sig, &raw, &rl);
		g_calls++;
		if (rc != KSI_OK) FAIL("serialize-error", "after op #%d %s: signature in slot %d no longer serializes (rc 0x%x)", H.opno, op_text(H.op), i, rc);
		else if (rl != H.s[i].d.bytes.n || memcmp(raw, H.s[i].d.bytes.p, rl) != 0)
			FAIL("serialization-changed", "after op #%d %s: signature in slot %d (origin sig%d) serializes to %zu bytes, was created with %zu bytes; first difference at offset %zu",
				H.opno, op_text(H.op), i, H.s[i].d.origin, rl, H.s[i].d.bytes.n, first_diff(raw, rl, H.s[i].d.bytes.p, H.s[i].d.bytes.n));
		KSI_free(raw);
	}
	/* the context's remembered "last failed signature" must stay a live, serializable object (memory safety is what is observed) */
	if (KSI_CTX_getLastFailedSignature(H.w.ctx, &lf) == KSI_OK && lf != NULL) {
		unsigned char *raw = NULL;
		size_t rl = 0;
		if (KSI_Signature_serialize(lf, &raw, &rl) == KSI_OK) KSI_free(raw);
		KSI_Signature_free(lf);
		g_calls += 2;
	}
}

/* stores a new live signature (takes ownership of sig and of the desc contents) in the slot the model predicted */
static void store(int newidx, KSI_Signature *sig, sdesc *d) {
	if (newidx < 0) {
		if (!H.failed) vf_harness_error("slot model out of sync: op #%d %s created a signature that the model did not predict", H.opno, op_text(H.op));
		KSI_Signature_free(sig);
		desc_free(d);
		return;
	}
	if (H.s[newidx].sig != NULL) { KSI_Signature_free(H.s[newidx].sig); desc_free(&H.s[newidx].d); }
	H.s[newidx].sig = sig;
	H.s[newidx].d = *d;
}

static void not_created(int newidx) {
	if (newidx < 0) return;
	if (!H.failed) vf_harness_error("slot model out of sync: op #%d %s was predicted to create a signature and did not", H.opno, op_text(H.op));
	H.aborted = 1;         /* a deviation was reported; later operations would refer to a signature that does not exist */
}

/* serialization of a freshly created signature into d->bytes; returns 0 on failure */
static int take_bytes(KSI_Signature *sig, sdesc *d) {
	unsigned char *raw = NULL;
	size_t rl = 0;
	int rc = KSI_Signature_serialize(sig, &raw, &rl);
	g_calls++;
	if (rc != KSI_OK) { FAIL("serialize-error", "op #%d %s: new signature does not serialize (rc 0x%x)", H.opno, op_text(H.op), rc); return 0; }
	desc_set_bytes(d, raw, rl);
	KSI_free(raw);
	return 1;
}

static void exec_op(const op_t *o) {
	int newidx = -1;
	slot_t *src = o->slot >= 0 ? &H.s[o->slot] : NULL;
	H.opno++; H.op = o;
	if (!abs_apply(&H.a, o, &newidx)) vf_harness_error("inapplicable operation %s in a history", op_text(o));
	if (src != NULL && src->sig == NULL) {
		if (!H.failed) vf_harness_error("slot model out of sync: op #%d %s on an empty slot", H.opno, op_text(o));
		H.aborted = 1;
		return;
	}
	H.transitions++;
	switch (o->kind) {
		case K_PARSE: {
			KSI_Signature *sig = NULL;
			sdesc d;
			int rc = KSI_Signature_parse(H.w.ctx, CAN[o->a].d.bytes.p, CAN[o->a].d.bytes.n, &sig);
			g_calls++;
			if (rc != KSI_OK || sig == NULL) { FAIL("canonical-signature-refused", "op #%d %s: rc 0x%x", H.opno, op_text(o), rc); not_created(newidx); break; }
			desc_copy(&d, &CAN[o->a].d);
			store(newidx, sig, &d);
			vf_outcome("parse:ok");
			break;
		}
		case K_GARBAGE: {
			KSI_Signature *sig = NULL;
			int rc = KSI_Signature_parse(H.w.ctx, GARBAGE[o->a].p, GARBAGE[o->a].n, &sig);
			g_calls++;
			vf_obs("g%x", rc);
			if (rc == KSI_OK || sig != NULL) { FAIL("garbage-accepted", "op #%d %s: rc 0x%x, signature object %s", H.opno, op_text(o), rc, sig ? "returned" : "not returned"); KSI_Signature_free(sig); }
			else vf_outcome("garbage:%s:refused", GNAME[o->a]);
			break;
		}
		case K_LOG:
			if (KSI_CTX_setLogLevel(H.w.ctx, o->a) != KSI_OK) FAIL("loglevel-refused", "op #%d %s failed", H.opno, op_text(o));
			g_calls++;
			vf_outcome("log:%s", o->a == KSI_LOG_NONE ? "none" : "debug");
			break;
		case K_CLONE: {
			KSI_Signature *c = NULL;
			sdesc d;
			int rc = KSI_Signature_clone(src->sig, &c);
			g_calls++;
			if (rc != KSI_OK || c == NULL) { FAIL("clone-failed", "op #%d %s: rc 0x%x", H.opno, op_text(o), rc); not_created(newidx); break; }
			desc_copy(&d, &src->d);
			{
				unsigned char *raw = NULL;
				size_t rl = 0;
				rc = KSI_Signature_serialize(c, &raw, &rl);
				g_calls++;
				if (rc != KSI_OK || rl != d.bytes.n || memcmp(raw, d.bytes.p, rl) != 0)
					FAIL("clone-differs", "op #%d %s: clone serializes (rc 0x%x) to %zu bytes, source has %zu bytes; first difference at offset %zu", H.opno, op_text(o), rc, rl, d.bytes.n,
						rc == KSI_OK ? first_diff(raw, rl, d.bytes.p, d.bytes.n) : (size_t)0);
				KSI_free(raw);
			}
			store(newidx, c, &d);     /* expected bytes stay those of the source */
			vf_outcome("clone:ok");
			break;
		}
		case K_SERIALIZE: {
			unsigned char *raw = NULL;
			size_t rl = 0;
			int rc = KSI_Signature_serialize(src->sig, &raw, &rl);
			g_calls++;
			if (rc != KSI_OK || rl != src->d.bytes.n || memcmp(raw, src->d.bytes.p, rl) != 0)
				FAIL("serialization-changed", "op #%d %s: rc 0x%x, %zu bytes, created with %zu bytes", H.opno, op_text(o), rc, rl, src->d.bytes.n);
			KSI_free(raw);
			vf_outcome("serialize:ok");
			break;
		}
		case K_GETTERS: {
			/* everything the signature hands out to the caller is read and released the way the headers prescribe; a few hashes are then
			 * created and dropped on the context (its pool of recycled hash objects is exercised) */
			KSI_DataHash *ph = NULL, *doc = NULL, *tmp = NULL;
			KSI_Utf8String *ps = NULL;
			KSI_LIST(KSI_Utf8String) *refs = NULL, *urls = NULL;
			KSI_HashChainLinkIdentityList *ids = NULL;
			KSI_Integer *t = NULL;
			time_t when = 0;
			char idbuf[256];
			int k;
			KSI_Signature_getPublicationInfo(src->sig, &ph, &ps, &when, &refs, &urls);
			KSI_DataHash_free(ph); KSI_Utf8String_free(ps); KSI_Utf8StringList_free(refs); KSI_Utf8StringList_free(urls);
			KSI_Signature_getDocumentHash(src->sig, &doc);              /* borrowed */
			KSI_Signature_getSigningTime(src->sig, &t);                 /* borrowed */
			KSI_Signature_getAggregationHashChainIdentity(src->sig, &ids);
			KSI_HashChainLinkIdentityList_free(ids);
			(void)idbuf;
			for (k = 0; k < 3; k++) { tmp = NULL; KSI_DataHash_create(H.w.ctx, "c11-pool", 3 + (size_t)k, KSI_HASHALG_SHA2_256, &tmp); KSI_DataHash_free(tmp); }
			g_calls += 8;
			vf_outcome("getters:done");
			break;
		}
		case K_VERIFY: {
			verdict got, ref = ref_verdict(&src->d, o->a, o->b, o->c, o->d);
			do_verify(&H.w, src->sig, &src->d, o->a, o->b, o->c, o->d, &got);
			vf_obs("v%x.%d.%x.%x", got.rc, got.res, got.err, got.rc2);
			vf_outcome("verify:%s:%s", PNAME[o->a], got.rc != KSI_OK ? "error" : got.res == KSI_VER_RES_OK ? "OK" : got.res == KSI_VER_RES_FAIL ? "FAIL" : "NA");
			if (got.rc != ref.rc || got.res != ref.res || got.err != ref.err || got.rc2 != ref.rc2)
				FAIL("verdict-differs-from-fresh-context", "op #%d %s on signature of origin sig%d%s%s: rc 0x%x result %d error 0x%x (helper with the application's context: 0x%x); the same call on a fresh context gives rc 0x%x result %d error 0x%x (helper 0x%x)",
					H.opno, op_text(o), src->d.origin, src->d.prep ? "+prepended" : "", src->d.extd ? "+extended" : "", got.rc, got.res, got.err, got.rc2, ref.rc, ref.res, ref.err, ref.rc2);
			break;
		}
		default: {
			int kind = o->kind == K_EXTEND ? DV_EXTEND : o->kind == K_PREPEND ? DV_PREPEND : DV_ADDROOT;
			const dv_entry *ref = ref_derive(&src->d, kind, o->a);
			KSI_Signature *out = NULL;
			int rc = do_derive(&H.w, src->sig, &src->d, kind, o->a, &out);
			int retry = H.w.last_prepend_retry;
			vf_obs("d%x", rc);
			vf_outcome("%s%s:%s", DVNAME[kind], retry ? ":retry-with-held-chain" : "", rc == KSI_OK ? "ok" : "error");
			if ((rc == KSI_OK) != (ref->rc == KSI_OK) || (rc != KSI_OK && rc != ref->rc))
				FAIL("derivation-differs-from-fresh-context", "op #%d %s on signature of origin sig%d%s: rc 0x%x; the same call on a fresh context%s gives rc 0x%x",
					H.opno, op_text(o), src->d.origin, src->d.prep ? "+prepended" : "", rc, retry ? " with a fresh local chain object" : "", ref->rc);
			if (rc == KSI_OK && out != NULL) {
				sdesc d;
				desc_copy(&d, &src->d);
				if (!take_bytes(out, &d)) { KSI_Signature_free(out); desc_free(&d); not_created(newidx); break; }
				if (ref->rc == KSI_OK && (d.bytes.n != ref->bytes.n || memcmp(d.bytes.p, ref->bytes.p, d.bytes.n) != 0))
					FAIL("derived-signature-differs-from-fresh-context", "op #%d %s: result has %zu bytes, on a fresh context %zu bytes; first difference at offset %zu",
						H.opno, op_text(o), d.bytes.n, ref->bytes.n, first_diff(d.bytes.p, d.bytes.n, ref->bytes.p, ref->bytes.n));
				vf_obs("b%016llx", (unsigned long long)d.key);
				if (kind == DV_EXTEND) { d.extd = 1; d.has_pub = 0; }
				else if (kind == DV_PREPEND) {
					d.prep = 1;
					memcpy(d.doc, CAN[d.origin].local.input, CAN[d.origin].local.input_len); d.doc_len = CAN[d.origin].local.input_len;
				} else {
					rsig m = CAN[d.origin].model;
					unsigned char root[RH_MAX_IMPRINT];
					size_t rl = 0;
					d.addlc += o->a;
					m.ch[0].links[0].level_corr += (uint64_t)d.addlc;
					if (rs_aggr_root(&m, 0, root, &rl, NULL) == 0) desc_set_root(&d, root, rl);
				}
				store(newidx, out, &d);
			} else not_created(newidx);
			break;
		}
	}
}

static void describe(char *buf, size_t cap, int s0, const int *seq, int n) {
	int i;
	size_t l = (size_t)snprintf(buf, cap, "parse(sig%d)", s0);
	for (i = 0; i < n && l + 4 < cap; i++) l += (size_t)snprintf(buf + l, cap - l, "; %s", op_text(&OPS[seq[i]]));
}

static void run_history(int s0, const int *seq, int n) {
	int i;
	long calls0 = g_calls, ref0 = ref_computed;
	static int sampled;
	build_canon();
	memset(&H, 0, sizeof H);
	fx_server_install(FXE_CORRECT);
	world_open(&H.w);
	exec_op(&OPS[PARSE_OP[s0]]);
	check_all();
	for (i = 0; i < n && !H.aborted; i++) {
		exec_op(&OPS[seq[i]]);
		if (!H.aborted) check_all();
	}
	vf_obs("log%d", H.w.log_msgs > 0);
	for (i = 0; i < NSLOT; i++) if (H.s[i].sig != NULL) { KSI_Signature_free(H.s[i].sig); desc_free(&H.s[i].d); H.s[i].sig = NULL; }
	world_close(&H.w);
	if (vf_alloc_live != 0) { FAIL("leak", "%ld SDK allocations live after freeing every signature, anchor and the context", vf_alloc_live); vf_alloc_live = 0; }
	vf_count("impl_calls", g_calls - calls0);
	vf_count("states", 1);
	vf_count("transitions", H.transitions);
	vf_count("reference_results_tabulated", ref_computed - ref0);
	if (sampled < 2 && n >= 2 && OPS[seq[0]].kind != OPS[seq[1]].kind && OPS[seq[0]].kind > K_LOG && OPS[seq[n - 1]].kind > K_LOG) {
		char b[560];
		describe(b, sizeof b, s0, seq, n);
		vf_sample("%s", b);
		sampled++;
	}
}

/* ------------------------------------------------------------------ enumeration */
static void enumerate(int s0, const astate *st, int *seq, int depth, int maxdepth, int subonly, int exact, char *name, size_t namelen) {
	int i, dummy;
	if (!exact || depth == maxdepth) {
		if (vf_case_begin("%s", name)) {
			run_history(s0, seq, depth);
			vf_case_end(1);
		}
	}
	if (depth == maxdepth) return;
	for (i = 0; i < NOPS; i++) {
		astate n;
		size_t l;
		if (subonly && !OPS[i].sub) continue;
		n = *st;
		if (!abs_apply(&n, &OPS[i], &dummy)) continue;
		seq[depth] = i;
		l = (size_t)snprintf(name + namelen, 64, ".%d", i);
		enumerate(s0, &n, seq, depth + 1, maxdepth, subonly, exact, name, namelen + l);
		name[namelen] = 0;
	}
}

static void run(void) {
	int s0, seq[MAXLEN], dummy;
	char name[256];
	build_ops();
	for (s0 = 0; s0 < NCAN; s0++) {
		astate st;
		size_t l;
		memset(&st, 0, sizeof st);
		abs_apply(&st, &OPS[PARSE_OP[s0]], &dummy);
		l = (size_t)snprintf(name, sizeof name, "h:%d", s0);
		/* full alphabet */
		enumerate(s0, &st, seq, 0, VF_THOROUGH ? 3 : 2, 0, 0, name, l);
		/* sub-alphabet, one operation deeper (shorter ones are covered above) */
		l = (size_t)snprintf(name, sizeof name, "h:%d", s0);
		enumerate(s0, &st, seq, 0, VF_THOROUGH ? 4 : 3, 1, 1, name, l);
	}
}

int main(int argc, char **argv) {
	vf_driver d = {"C11", run};
	return vf_main(argc, argv, &d);
}
