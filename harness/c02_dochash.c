/* C02 - a signature verifies only for the document hash and level it was issued for */
#include "anchor_fix.h"
#include <unistd.h>

enum { P_INTERNAL = 0, P_CALENDAR, P_KEY, P_PUBFILE, P_USERPUB, P_GENERAL, P_NPOL };
static const char *PNAME[P_NPOL] = {"internal", "calendar", "key", "pubfile", "userpub", "general"};

/* signature variants: 0 two chains, first level correction 3; 1 lc 0; 2 lc 1; 3 lc 7; 4 single link lc 254; 5 legacy RFC3161 form (lc 0);
 * 6 legacy RFC3161 form whose first link carries level correction 2 (level must still be 0);
 * 7 legacy RFC3161 form whose record input hash (the document) is SHA-512 while the record's output / first chain input is SHA-256;
 * 8 first chain of three links: the first without a level correction element, the second and third with corrections 2 and 1 */
#define NSIGV 9
static unsigned g_doc_seed_bump;      /* another document, same shape */
static void make_sig(rsig *s, int variant, int form, const rk_cert *signer) {
	rs_params p;
	static const unsigned LC[] = {3, 0, 1, 7, 254, 0, 2, 0, 0};
	rs_default_params(&p);
	if (variant == 4) { p.nchains = 1; p.nlinks[0] = 1; p.link_desc[0][0] = 1u | (LC[4] << 3); }
	else if (variant == 8) {
		p.nchains = 2; p.nlinks[0] = 3; p.nlinks[1] = 1; p.chain_alg[1] = RH_SHA256;
		p.link_desc[0][0] = 0u; p.link_desc[0][1] = 1u | (2u << 3); p.link_desc[0][2] = 0u | (1u << 3); p.link_desc[1][0] = 1;
	} else {
		p.nchains = 2; p.nlinks[0] = 2; p.nlinks[1] = 1; p.chain_alg[1] = RH_SHA256;
		p.link_desc[0][0] = 0u | (LC[variant] << 3); p.link_desc[0][1] = 1 | (1 << 1); p.link_desc[1][0] = 1;
	}
	p.aggr_time = FX_T0; p.pub_time = FX_P0; p.tail = form; p.with_rfc3161 = variant >= 5 && variant <= 7;
	p.doc_seed += g_doc_seed_bump;
	rs_build(s, &p);
	if (variant == 7) {
		s->rfc.input_len = ref_fake_imprint(RH_SHA512, 77, s->rfc.input);
		if (rs_fix(s, RS_FIX_RFC | RS_FIX_INPUTS | RS_FIX_CAL_IN | RS_FIX_TAIL) != 0) vf_harness_error("fixture: legacy signature with a SHA-512 document");
	}
	if (form == 3 && signer) rk_sign_auth_record(s, signer);
}

typedef struct {
	KSI_CTX *ctx;
	KSI_Signature *sig;
	KSI_Signature *other;         /* a signature of the same shape for ANOTHER document (left in the caller's context by an earlier use) */
	rsig model;
	KSI_VerificationContext vc;
	KSI_PublicationData *upd;
	KSI_PublicationsFile *upf;
	const KSI_Policy *policy;
	int pol;
} world_t;

/* builds a world in which the signature is bound to a matching anchor of the policy, so that the only
 * possible reason for a non-OK verdict is the document hash / level */
static void world_open(world_t *w, int pol, int variant) {
	vbuf sb, pf;
	int form = pol == P_KEY ? 3 : (pol == P_PUBFILE || pol == P_USERPUB || pol == P_GENERAL) ? 2 : pol == P_CALENDAR ? 1 : (variant & 3);
	memset(w, 0, sizeof *w);
	w->pol = pol;
	fx_pki();
	fx_server_install(FXE_CORRECT);
	w->ctx = fx_ctx(1, 0);
	make_sig(&w->model, variant, form, &fx_auth_cert);
	vb_init(&sb); vb_init(&pf);
	rs_serialize(&w->model, &sb);
	if (vf_replaying() && getenv("C02_DEBUG")) fprintf(stderr, "[C02] signature variant %d: %s\n", variant, vf_hex(sb.p, sb.n > 160 ? 160 : sb.n));
	if (KSI_Signature_parseWithPolicy(w->ctx, sb.p, sb.n, KSI_VERIFICATION_POLICY_EMPTY, NULL, &w->sig) != KSI_OK) vf_harness_error("fixture signature refused");
	{
		rsig om;
		vbuf ob;
		g_doc_seed_bump = 1000;
		make_sig(&om, variant == 7 ? 5 : variant, form, &fx_auth_cert);
		g_doc_seed_bump = 0;
		vb_init(&ob);
		rs_serialize(&om, &ob);
		if (KSI_Signature_parseWithPolicy(w->ctx, ob.p, ob.n, KSI_VERIFICATION_POLICY_EMPTY, NULL, &w->other) != KSI_OK) vf_harness_error("second fixture signature refused");
		vb_free(&ob);
	}
	rs_aggr_root(&w->model, 0, FXS.root, &FXS.root_len, NULL);
	KSI_VerificationContext_init(&w->vc, w->ctx);
	w->vc.signature = w->sig;
	switch (pol) {
		case P_INTERNAL: w->policy = KSI_VERIFICATION_POLICY_INTERNAL; break;
		case P_CALENDAR: w->policy = KSI_VERIFICATION_POLICY_CALENDAR_BASED; break;
		case P_KEY: case P_PUBFILE: {
			uint64_t times[1] = {FX_P0};
			unsigned char hashes[1][RH_MAX_IMPRINT];
			size_t hlens[1];
			const rk_cert *certs[1] = {&fx_auth_cert};
			fx_cal_root(FXS.root, FXS.root_len, FX_P0, hashes[0], &hlens[0]);
			fx_make_pubfile(&pf, 1, times, hashes, hlens, 1, certs, &fx_pub_signer);
			if (KSI_PublicationsFile_parse(w->ctx, pf.p, pf.n, &w->upf) != KSI_OK) vf_harness_error("fixture publications file refused");
			w->vc.userPublicationsFile = w->upf;
			w->policy = pol == P_KEY ? KSI_VERIFICATION_POLICY_KEY_BASED : KSI_VERIFICATION_POLICY_PUBLICATIONS_FILE_BASED;
			break;
		}
		default:
			w->upd = fx_pubdata(w->ctx, w->model.pub_time, w->model.pub_hash, w->model.pub_hash_len);
			w->vc.userPublication = w->upd;
			w->policy = pol == P_USERPUB ? KSI_VERIFICATION_POLICY_USER_PUBLICATION_BASED : KSI_VERIFICATION_POLICY_GENERAL;
			break;
	}
	vb_free(&sb); vb_free(&pf);
}
static void world_close(world_t *w) {
	KSI_VerificationContext_clean(&w->vc);
	KSI_PublicationData_free(w->upd);
	KSI_PublicationsFile_free(w->upf);
	KSI_Signature_free(w->sig);
	KSI_Signature_free(w->other);
	KSI_CTX_free(w->ctx);
}

/* expected verdict for (hash relation, level): hrel 0 equal, 1 other digest, 2 other algorithm */
enum { E_OK = 0, E_GEN1, E_GEN4, E_GEN3, E_REFUSED, E_NOT_OK };
static int expected(const world_t *w, int hrel, int have_hash, uint64_t level) {
	uint64_t lc = rs_first_level_corr(&w->model);
	int lvl;
	if (level > 255) lvl = E_REFUSED;
	else if (w->model.has_rfc ? level > 0 : level > lc) lvl = E_GEN3;
	else lvl = E_OK;
	if (!have_hash || hrel == 0) return lvl;
	if (lvl != E_OK) return E_NOT_OK;                 /* two reasons: any non-OK verdict */
	return hrel == 1 ? E_GEN1 : E_GEN4;
}

static void judge(const world_t *w, const char *api, int exp, int rc, int have_result, int result_code, int error_code, const char *detail) {
	int ok = rc == KSI_OK && (!have_result || result_code == KSI_VER_RES_OK);
	static const char *EN[] = {"OK", "GEN-01", "GEN-04", "GEN-03", "refused", "not-OK"};
	vf_outcome("%s:%s:expect-%s:%s", PNAME[w->pol], api, EN[exp], ok ? "OK" : rc != KSI_OK ? "error" : result_code == KSI_VER_RES_FAIL ? "FAIL" : "NA");
	vf_obs("rc=%x r=%d e=%x", rc, have_result ? result_code : -1, have_result ? error_code : -1);
	if (vf_replaying() && getenv("C02_DEBUG")) fprintf(stderr, "[C02] %s %s: expect %s, rc=0x%x result=%d error=0x%x\n", api, detail, EN[exp], rc, have_result ? result_code : -1, have_result ? error_code : -1);
	if (exp == E_OK) { if (!ok) vf_fail("own-document-refused", "%s/%s %s: own document hash and admissible level but rc 0x%x result %d error 0x%x", PNAME[w->pol], api, detail, rc, result_code, error_code); return; }
	if (ok) { vf_fail("foreign-document-accepted", "%s/%s %s: verification succeeded, expected %s", PNAME[w->pol], api, detail, EN[exp]); return; }
	if (!have_result) return;                          /* status-only interfaces: failure is all that is observable */
	if (exp == E_REFUSED) {
		if (rc == KSI_OK) vf_fail("level-above-255-not-refused", "%s/%s %s: level above 255 must be refused as invalid input, got verdict %d/0x%x", PNAME[w->pol], api, detail, result_code, error_code);
		return;
	}
	if (exp == E_NOT_OK) return;
	if (rc != KSI_OK || result_code != KSI_VER_RES_FAIL || error_code != (exp == E_GEN1 ? KSI_VER_ERR_GEN_1 : exp == E_GEN4 ? KSI_VER_ERR_GEN_4 : KSI_VER_ERR_GEN_3))
		vf_fail("wrong-verdict", "%s/%s %s: expected FAIL %s, got rc 0x%x result %d error 0x%x", PNAME[w->pol], api, detail, EN[exp], rc, result_code, error_code);
}

static KSI_DataHash *mk_hash(KSI_CTX *ctx, const unsigned char *imprint, size_t n) {
	KSI_DataHash *h = NULL;
	if (KSI_DataHash_fromImprint(ctx, imprint, n, &h) != KSI_OK) return NULL;
	return h;
}

/* all interfaces for one (hash, level) */
static void verify_all(world_t *w, const unsigned char *imprint, size_t n, int hrel, uint64_t level, const char *detail, int all_apis) {
	KSI_DataHash *h = imprint ? mk_hash(w->ctx, imprint, n) : NULL;
	KSI_PolicyVerificationResult *res = NULL;
	int rc, exp = expected(w, hrel, h != NULL, level);
	if (imprint && !h) { vf_outcome("hash-object-refused"); return; }
	/* (1) verifier with the context */
	w->vc.documentHash = h; w->vc.docAggrLevel = level;
	rc = KSI_SignatureVerifier_verify(w->policy, &w->vc, &res);
	vf_count("impl_calls", 1);
	judge(w, "verifier", exp, rc, rc == KSI_OK && res != NULL, res ? (int)res->finalResult.resultCode : -1, res ? (int)res->finalResult.errorCode : -1, detail);
	KSI_PolicyVerificationResult_free(res);
	if (all_apis) {
		/* a context that is reused: KSI_VerificationContext_clean frees the temporary data of the last verification; the document hash
		 * and level the caller put into the context still decide the next one (the caller names the signature again) */
		res = NULL;
		KSI_VerificationContext_clean(&w->vc);
		w->vc.signature = w->sig;
		rc = KSI_SignatureVerifier_verify(w->policy, &w->vc, &res);
		vf_count("impl_calls", 1);
		judge(w, "verifier-after-clean", exp, rc, rc == KSI_OK && res != NULL, res ? (int)res->finalResult.resultCode : -1, res ? (int)res->finalResult.errorCode : -1, detail);
		KSI_PolicyVerificationResult_free(res);
	}
	w->vc.documentHash = NULL; w->vc.docAggrLevel = 0;
	if (all_apis) {
		/* (2) helper with hash and level as arguments and the anchors in a caller-supplied context */
		rc = KSI_Signature_verifyWithPolicy(w->sig, h, level, w->policy, &w->vc);
		vf_count("impl_calls", 1);
		judge(w, "verifyWithPolicy+ctx", exp, rc, 0, 0, 0, detail);
		/* the explicit hash and level are arguments of THIS call: they may not stay behind in the caller's context (a later
		 * verification with the same context and no explicit hash would be judged against them) */
		if (w->vc.documentHash != NULL || w->vc.docAggrLevel != 0) {
			vf_fail("caller-context-modified", "%s/verifyWithPolicy+ctx %s: the call left %s in the caller's verification context", PNAME[w->pol], detail, w->vc.documentHash != NULL ? "its explicit document hash" : "its explicit level");
			w->vc.documentHash = NULL; w->vc.docAggrLevel = 0;
		}
		if (h != NULL || level != 0) {
			/* and the next call with that context and no explicit arguments verifies the signature on its own again */
			int rc2 = KSI_Signature_verifyWithPolicy(w->sig, NULL, 0, w->policy, &w->vc);
			vf_count("impl_calls", 1);
			judge(w, "verifyWithPolicy+ctx-afterwards", expected(w, 0, 0, 0), rc2, 0, 0, 0, detail);
		}
		/* (2b) the same helper when the caller's context already carries the signature's own hash and level 0 (e.g. a
		 * context reused from an earlier verification): the explicitly supplied hash / level must still decide */
		if (h != NULL || level != 0) {
			const unsigned char *own; size_t ol;
			KSI_DataHash *oh;
			rs_document_hash(&w->model, &own, &ol);
			oh = mk_hash(w->ctx, own, ol);
			w->vc.documentHash = oh; w->vc.docAggrLevel = 0;
			rc = KSI_Signature_verifyWithPolicy(w->sig, h, level, w->policy, &w->vc);
			vf_count("impl_calls", 1);
			/* with no explicit hash the context's (genuine) hash applies: only the level decides */
			judge(w, "verifyWithPolicy+ctx-own-hash", h != NULL ? exp : expected(w, 0, 1, level), rc, 0, 0, 0, detail);
			w->vc.documentHash = NULL;
			KSI_DataHash_free(oh);
		}
		/* (2e) the caller's context still names ANOTHER signature (left there by an earlier verification): the signature given as
		 * the first argument is the one that is verified */
		w->vc.signature = w->other;
		rc = KSI_Signature_verifyWithPolicy(w->sig, h, level, w->policy, &w->vc);
		vf_count("impl_calls", 1);
		judge(w, "verifyWithPolicy+ctx-other-signature", exp, rc, 0, 0, 0, detail);
		w->vc.signature = w->sig; w->vc.documentHash = NULL; w->vc.docAggrLevel = 0;
		/* (2g) one of the two as an explicit argument, the other one in the caller's context: both decide */
		if (h != NULL && level != 0) {
			w->vc.documentHash = NULL; w->vc.docAggrLevel = level;
			rc = KSI_Signature_verifyWithPolicy(w->sig, h, 0, w->policy, &w->vc);
			vf_count("impl_calls", 1);
			judge(w, "verifyWithPolicy+hash-explicit+level-in-ctx", exp, rc, 0, 0, 0, detail);
			w->vc.documentHash = h; w->vc.docAggrLevel = 0;
			rc = KSI_Signature_verifyWithPolicy(w->sig, NULL, level, w->policy, &w->vc);
			vf_count("impl_calls", 1);
			judge(w, "verifyWithPolicy+level-explicit+hash-in-ctx", exp, rc, 0, 0, 0, detail);
			w->vc.documentHash = NULL; w->vc.docAggrLevel = 0;
		}
		/* (2c) hash and level only in the caller's context (explicit arguments NULL / 0), and (2d) the same context given to
		 * the parsing helper, which verifies the freshly parsed signature with it */
		{
			KSI_Signature *ps = NULL;
			vbuf sb;
			w->vc.documentHash = h; w->vc.docAggrLevel = level;
			rc = KSI_Signature_verifyWithPolicy(w->sig, NULL, 0, w->policy, &w->vc);
			vf_count("impl_calls", 1);
			judge(w, "verifyWithPolicy+ctx-only", exp, rc, 0, 0, 0, detail);
			vb_init(&sb);
			rs_serialize(&w->model, &sb);
			w->vc.signature = NULL;
			rc = KSI_Signature_parseWithPolicy(w->ctx, sb.p, sb.n, w->policy, &w->vc, &ps);
			vf_count("impl_calls", 1);
			judge(w, "parseWithPolicy+ctx", exp, rc, 0, 0, 0, detail);
			if (rc != KSI_OK && ps != NULL) vf_fail("signature-returned-with-error", "KSI_Signature_parseWithPolicy failed with 0x%x but returned a signature", rc);
			KSI_Signature_free(ps); ps = NULL;
			{
				/* (2f) the same bytes read from a file by the helper that takes a policy and the caller's context */
				static char path[64];
				FILE *f;
				if (!path[0]) snprintf(path, sizeof path, "/tmp/vf_c02_%ld.ksig", (long)getpid());
				f = fopen(path, "wb");
				if (f == NULL || fwrite(sb.p, 1, sb.n, f) != sb.n) vf_harness_error("cannot write %s", path);
				fclose(f);
				w->vc.signature = NULL;
				rc = KSI_Signature_fromFileWithPolicy(w->ctx, path, w->policy, &w->vc, &ps);
				vf_count("impl_calls", 1);
				judge(w, "fromFileWithPolicy+ctx", exp, rc, 0, 0, 0, detail);
				if (rc != KSI_OK && ps != NULL) vf_fail("signature-returned-with-error", "KSI_Signature_fromFileWithPolicy failed with 0x%x but returned a signature", rc);
				KSI_Signature_free(ps);
				remove(path);
			}
			vb_free(&sb);
			w->vc.signature = w->sig; w->vc.documentHash = NULL; w->vc.docAggrLevel = 0;
		}
		/* (3) helper without a context: only policies that need no anchor from the caller */
		if (w->pol == P_INTERNAL) {
			rc = KSI_Signature_verifyWithPolicy(w->sig, h, level, w->policy, NULL);
			vf_count("impl_calls", 1);
			judge(w, "verifyWithPolicy", exp, rc, 0, 0, 0, detail);
		}
	}
	KSI_DataHash_free(h);
}

static void part_documents(void);
static void run(void) {
	int pol, variant;
	for (pol = 0; pol < P_NPOL; pol++) for (variant = 0; variant < NSIGV; variant++) {
		int part;
		if (!VF_THOROUGH && !(variant == 0 || variant == 5 || ((variant == 6 || variant == 7) && (pol == P_INTERNAL || pol == P_GENERAL)) || ((variant == 4 || variant == 1 || variant == 8) && pol == P_INTERNAL) || (variant == 1 && pol == P_GENERAL) || (variant == 2 && pol == P_KEY))) continue;   /* variant 1: the first link has no level correction element at all */
		for (part = 0; part < 3; part++) {
			world_t w;
			const unsigned char *dh;
			size_t dl;
			unsigned char x[RH_MAX_IMPRINT];
			if (!vf_case_begin("doc:%s:sig%d:%s", PNAME[pol], variant, part == 0 ? "hashes" : part == 1 ? "levels" : "both")) continue;
			world_open(&w, pol, variant);
			rs_document_hash(&w.model, &dh, &dl);
			if (part == 0) {
				size_t i;
				int bit;
				char d[64];
				verify_all(&w, NULL, 0, 0, 0, "no document hash", 1);
				verify_all(&w, dh, dl, 0, 0, "equal hash", 1);
				/* every single-bit flip of the digest */
				for (i = 1; i < dl; i++) for (bit = 0; bit < 8; bit++) {
					memcpy(x, dh, dl);
					x[i] ^= (unsigned char)(1u << bit);
					snprintf(d, sizeof d, "digest byte %zu bit %d flipped", i, bit);
					verify_all(&w, x, dl, 1, 0, d, (i % 8) == 1 && bit == 0);
				}
				/* same digest bytes under another algorithm of equal length, and other lengths */
				memcpy(x, dh, dl); x[0] = RH_SHA3_256; verify_all(&w, x, dl, 2, 0, "same digest as SHA3-256", 1);
				memcpy(x, dh, dl); x[0] = RH_SM3; verify_all(&w, x, dl, 2, 0, "same digest as SM3", 1);
				if (dh[0] != RH_SHA512) { size_t l = ref_fake_imprint(RH_SHA512, 1, x); memcpy(x + 1, dh + 1, dl - 1); verify_all(&w, x, l, 2, 0, "SHA-512 with the digest as prefix", 1); }
				{ size_t l = ref_fake_imprint(RH_SHA1, 1, x); memcpy(x + 1, dh + 1, 20); verify_all(&w, x, l, 2, 0, "SHA-1 with the digest prefix", 1); }
				if (dh[0] != RH_SHA256) { size_t l = ref_fake_imprint(RH_SHA256, 1, x); memcpy(x + 1, dh + 1, 32); verify_all(&w, x, l, 2, 0, "SHA-256 with the digest prefix", 1); }
				if (w.model.has_rfc && w.model.ch[0].input_len == dl && w.model.ch[0].input[0] == dh[0]) { verify_all(&w, w.model.ch[0].input, dl, 1, 0, "the legacy record's output hash", 1); }
				else if (w.model.has_rfc) { verify_all(&w, w.model.ch[0].input, w.model.ch[0].input_len, 2, 0, "the legacy record's output hash (other algorithm)", 1); }
				vf_sample("%s policy, signature variant %d: equal hash, 256 single-bit flips, 4 other-algorithm hashes", PNAME[pol], variant);
			} else {
				static const uint64_t BIG[] = {0x7fffffffULL, 0x80000000ULL, 0xffffffffULL, 0x100000000ULL, 0x100000001ULL, 0x8000000000000000ULL, 0xffffffffffffffffULL};
				uint64_t lv;
				size_t k;
				char d[64];
				memcpy(x, dh, dl);
				if (part == 2) x[dl - 1] ^= 0x10;
				for (lv = 0; lv <= 300; lv++) {
					snprintf(d, sizeof d, "level %llu%s", (unsigned long long)lv, part == 2 ? " + other digest" : "");
					verify_all(&w, x, dl, part == 2, lv, d, lv <= 9 || (lv % 16) == 0 || (lv >= 250 && lv <= 260));
				}
				for (k = 0; k < sizeof BIG / sizeof *BIG; k++) {
					snprintf(d, sizeof d, "level 0x%llx%s", (unsigned long long)BIG[k], part == 2 ? " + other digest" : "");
					verify_all(&w, x, dl, part == 2, BIG[k], d, 1);
				}
				/* level without a document hash */
				if (part == 1) for (lv = 0; lv <= 260; lv += 1) { snprintf(d, sizeof d, "level %llu, no hash", (unsigned long long)lv); verify_all(&w, NULL, 0, 0, lv, d, lv % 32 == 0); }
			}
			world_close(&w);
			vf_case_end(1);
		}
	}
	/* status-only convenience interfaces on a context-wide configuration */
	{
		int hrel;
		for (hrel = 0; hrel < 3; hrel++) {
			world_t w;
			const unsigned char *dh;
			size_t dl;
			unsigned char x[RH_MAX_IMPRINT];
			KSI_DataHash *h;
			int rc;
			if (!vf_case_begin("doc:convenience:hrel%d", hrel)) continue;
			world_open(&w, P_INTERNAL, 0);
			rs_document_hash(&w.model, &dh, &dl);
			memcpy(x, dh, dl);
			if (hrel == 1) x[7] ^= 2;
			if (hrel == 2) x[0] = RH_SM3;
			h = mk_hash(w.ctx, x, dl);
			/* KSI_verifyDataHash uses the general policy with the context's own anchors: none is configured here, so it
			 * cannot report OK for another reason than a bug; for the equal hash the verdict depends on anchors (not judged) */
			rc = KSI_verifyDataHash(w.ctx, w.sig, h);
			vf_count("impl_calls", 1);
			vf_outcome("convenience:verifyDataHash:hrel%d:%s", hrel, rc == KSI_OK ? "OK" : "error");
			if (hrel != 0 && rc == KSI_OK) vf_fail("foreign-document-accepted", "KSI_verifyDataHash accepted a foreign hash (relation %d)", hrel);
			KSI_DataHash_free(h);
			world_close(&w);
			vf_case_end(1);
		}
	}
	part_documents();
}

/* ---- convenience interfaces that take the document itself or rely on the context-wide anchors: KSI_Signature_verifyDocument hashes the
 * bytes with the signature's own input algorithm and verifies under the general policy, KSI_verifyDataHash / KSI_verifySignature use
 * the context's anchors (here: the extender, which reproduces the signature's calendar chain) */
static void part_documents(void) {
	static const int ALGS[] = {RH_SHA256, RH_SHA384, RH_SHA512, RH_RIPEMD160};
	static const char D0[] = "C02 document: bytes that were really signed\n";
	size_t ai;
	for (ai = 0; ai < sizeof ALGS / sizeof *ALGS; ai++) {
		world_t w;
		unsigned char doc[128], im[RH_MAX_IMPRINT];
		size_t dn = sizeof D0 - 1, i, il;
		vbuf sb;
		KSI_DataHash *h;
		int rc, bit;
		if (!ref_backend_supports(ALGS[ai])) continue;
		if (!vf_case_begin("doc:document-bytes:alg%d", ALGS[ai])) continue;
		world_open(&w, P_KEY, 0);
		/* the same signature shape for the hash of D0 under ALGS[ai]; its authentication record is signed with the key whose certificate
		 * the context-wide publications file (fetched from the context's publications URL) lists */
		w.model.ch[0].input_len = ref_imprint(ALGS[ai], D0, dn, w.model.ch[0].input);
		if (rs_fix(&w.model, RS_FIX_INPUTS | RS_FIX_CAL_IN | RS_FIX_TAIL) != 0) vf_harness_error("fixture: signature for a real document");
		rk_sign_auth_record(&w.model, &fx_auth_cert);
		{
			uint64_t times[1] = {FX_P0};
			unsigned char hashes[1][RH_MAX_IMPRINT];
			size_t hlens[1];
			const rk_cert *certs[1] = {&fx_auth_cert};
			unsigned char root[RH_MAX_IMPRINT];
			size_t rl = 0;
			rs_aggr_root(&w.model, 0, root, &rl, NULL);
			fx_cal_root(root, rl, FX_P0, hashes[0], &hlens[0]);
			vb_reset(&FXS.pubfile);
			fx_make_pubfile(&FXS.pubfile, 1, times, hashes, hlens, 1, certs, &fx_pub_signer);
			FXS.pubfile_mode = 0;
			if (KSI_CTX_setPublicationUrl(w.ctx, "http://pub.fx.test/ksi-publications.bin") != KSI_OK) vf_harness_error("setPublicationUrl");
		}
		vb_init(&sb);
		rs_serialize(&w.model, &sb);
		KSI_Signature_free(w.sig); w.sig = NULL;
		if (KSI_Signature_parseWithPolicy(w.ctx, sb.p, sb.n, KSI_VERIFICATION_POLICY_EMPTY, NULL, &w.sig) != KSI_OK) vf_harness_error("document fixture signature refused");
		vb_free(&sb);
		rs_aggr_root(&w.model, 0, FXS.root, &FXS.root_len, NULL);
		w.vc.signature = w.sig;
		/* the document itself */
		rc = KSI_Signature_verifyDocument(w.sig, w.ctx, D0, dn);
		vf_count("impl_calls", 1);
		vf_outcome("document:own:%s", rc == KSI_OK ? "OK" : "error");
		if (rc != KSI_OK) vf_fail("own-document-refused", "KSI_Signature_verifyDocument refused the signed document itself (algorithm %d): 0x%x", ALGS[ai], rc);
		if (rc != KSI_OK && getenv("VF_DEBUG")) KSI_ERR_statusDump(w.ctx, stderr);
		rc = KSI_verifySignature(w.ctx, w.sig);
		vf_count("impl_calls", 1);
		if (rc != KSI_OK) vf_fail("own-document-refused", "KSI_verifySignature (context-wide anchors) refused the fixture signature: 0x%x", rc);
		il = ref_imprint(ALGS[ai], D0, dn, im);
		h = mk_hash(w.ctx, im, il);
		rc = KSI_verifyDataHash(w.ctx, w.sig, h);
		vf_count("impl_calls", 1);
		vf_outcome("convenience:verifyDataHash:own:%s", rc == KSI_OK ? "OK" : "error");
		if (rc != KSI_OK) vf_fail("own-document-refused", "KSI_verifyDataHash refused the hash of the signed document (algorithm %d): 0x%x", ALGS[ai], rc);
		KSI_DataHash_free(h);
		/* every single-bit change of the document, every proper prefix, one more byte, the empty document */
		for (i = 0; i < dn; i++) for (bit = 0; bit < 8; bit++) {
			memcpy(doc, D0, dn);
			doc[i] ^= (unsigned char)(1u << bit);
			rc = KSI_Signature_verifyDocument(w.sig, w.ctx, doc, dn);
			vf_count("impl_calls", 1);
			if (rc == KSI_OK) vf_fail("foreign-document-accepted", "KSI_Signature_verifyDocument accepted the document with bit %d of byte %zu changed (algorithm %d)", bit, i, ALGS[ai]);
			else vf_outcome("document:bit-changed:%s", rc == KSI_VERIFICATION_FAILURE ? "verification-failure" : "other-error");
			if (bit == 0 && (i % 8) == 0) {
				il = ref_imprint(ALGS[ai], doc, dn, im);
				h = mk_hash(w.ctx, im, il);
				rc = KSI_verifyDataHash(w.ctx, w.sig, h);
				vf_count("impl_calls", 1);
				if (rc == KSI_OK) vf_fail("foreign-document-accepted", "KSI_verifyDataHash accepted the hash of another document (byte %zu changed, algorithm %d)", i, ALGS[ai]);
				KSI_DataHash_free(h);
			}
		}
		memcpy(doc, D0, dn); doc[dn] = 0;
		for (i = 0; i <= dn + 1; i++) {
			if (i == dn) continue;
			rc = KSI_Signature_verifyDocument(w.sig, w.ctx, doc, i);
			vf_count("impl_calls", 1);
			if (rc == KSI_OK) vf_fail("foreign-document-accepted", "KSI_Signature_verifyDocument accepted %zu bytes of the %zu-byte document (algorithm %d)", i, dn, ALGS[ai]);
			else vf_outcome("document:other-length:%s", rc == KSI_VERIFICATION_FAILURE ? "verification-failure" : "other-error");
		}
		/* the document hashed with another algorithm than the signature's input algorithm */
		{
			int oa = ALGS[ai] == RH_SHA256 ? RH_SHA512 : RH_SHA256;
			il = ref_imprint(oa, D0, dn, im);
			h = mk_hash(w.ctx, im, il);
			rc = KSI_verifyDataHash(w.ctx, w.sig, h);
			vf_count("impl_calls", 1);
			if (rc == KSI_OK) vf_fail("foreign-document-accepted", "KSI_verifyDataHash accepted the document hashed with algorithm %d for a signature over algorithm %d", oa, ALGS[ai]);
			KSI_DataHash_free(h);
		}
		world_close(&w);
		vf_case_end(1);
	}
}

int main(int argc, char **argv) {
	vf_driver d = {"C02", run};
	return vf_main(argc, argv, &d);
}
