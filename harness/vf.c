/* vf.c - common harness core (see vf.h). Compiled WITHOUT instrumentation of its own
 * semantics: it is part of the checker, not of the unit under test. */
#define _GNU_SOURCE
#include "vf.h"
#include <stdarg.h>
#include <stdlib.h>
#include <string.h>
#include <unistd.h>
#include <signal.h>
#include <time.h>
#include <errno.h>
#include <fcntl.h>
#include <sys/mman.h>
#include <sys/wait.h>
#include <sys/stat.h>

int vf_tier = 0;
int vf_seed = 0;

/* ------------------------------------------------------------------ buffers */
void vb_init(vbuf *b) { b->p = NULL; b->n = b->cap = 0; }
void vb_free(vbuf *b) { free(b->p); b->p = NULL; b->n = b->cap = 0; }
void vb_reset(vbuf *b) { b->n = 0; }
void vb_put(vbuf *b, const void *d, size_t n) {
	if (b->n + n > b->cap) {
		size_t nc = b->cap ? b->cap * 2 : 64;
		while (nc < b->n + n) nc *= 2;
		b->p = (unsigned char *)realloc(b->p, nc);
		if (!b->p) { fprintf(stderr, "vf: oom\n"); _exit(2); }
		b->cap = nc;
	}
	if (n) memcpy(b->p + b->n, d, n);
	b->n += n;
}
void vb_putc(vbuf *b, int c) { unsigned char ch = (unsigned char)c; vb_put(b, &ch, 1); }
void vb_putvb(vbuf *b, const vbuf *s) { vb_put(b, s->p, s->n); }

const char *vf_hex(const void *d, size_t n) {
	static char ring[8][4200];
	static int ri = 0;
	char *o = ring[ri++ & 7];
	size_t i, max = (sizeof(ring[0]) - 8) / 2;
	const unsigned char *p = (const unsigned char *)d;
	for (i = 0; i < n && i < max; i++) sprintf(o + 2 * i, "%02x", p[i]);
	if (i < n) strcpy(o + 2 * i, "...");
	else o[2 * i] = 0;
	return o;
}
int vf_unhex(const char *s, unsigned char *out, size_t cap, size_t *n) {
	size_t k = 0;
	while (s[0] && s[1]) {
		unsigned v;
		if (k >= cap) return -1;
		if (sscanf(s, "%2x", &v) != 1) return -1;
		out[k++] = (unsigned char)v;
		s += 2;
	}
	*n = k;
	return 0;
}
uint64_t vf_fnv(const void *d, size_t n, uint64_t h) {
	const unsigned char *p = (const unsigned char *)d;
	size_t i;
	if (h == 0) h = 1469598103934665603ULL;
	for (i = 0; i < n; i++) { h ^= p[i]; h *= 1099511628211ULL; }
	return h;
}

/* ------------------------------------------------------------------ shared run state */
#define NCTR 192
#define NOUT 2048
#define NSAMP 8
#define CASE_MAX 8192
#define DSET_BITS 23
#define DSET_SIZE (1u << DSET_BITS)

typedef struct {
	long done_counter;              /* counter of the last case that finished (or crashed) */
	long cur_counter;
	int in_case;
	char cur_case[CASE_MAX];
	long executed, nontrivial, distinct, skipped_deadline, violations, viol_printed;
	int dset_saturated;
	struct { char key[56]; long v; int is_max; } ctr[NCTR];
	struct { char s[120]; long c; } out[NOUT];
	int nout_overflow;
	char samples[NSAMP][600];
	int nsamples;
	char inexh[4][200];
	int ninexh;
	int harness_error;
	uint64_t dset[DSET_SIZE];
} shared_t;

static shared_t *S;
static long g_counter;        /* enumeration counter in this process */
static long g_skip_until;     /* cases with counter <= this were already handled */
static int g_shard = 0, g_nshards = 1;
static const char *g_replay = NULL;
static long g_replay_matched = 0;
static int g_obs_sample = 0, g_obs_stride = 1, g_obs_done = 0;
static double g_deadline = 0; /* absolute monotonic seconds, 0 = none */
static int g_case_limit = 120;
static int g_in_case = 0;
static int g_case_failed = 0;
static uint64_t g_obs_hash;
static char g_case[CASE_MAX];
static int g_list_only = 0;
static int g_deadline_passed = 0;

static double now_s(void) {
	struct timespec ts;
	clock_gettime(CLOCK_MONOTONIC, &ts);
	return ts.tv_sec + ts.tv_nsec * 1e-9;
}

int vf_replaying(void) { return g_replay != NULL; }
const char *vf_case_name(void) { return g_case; }

static void out_line(const char *s) {
	/* single write so that lines from different processes do not interleave */
	size_t n = strlen(s);
	ssize_t r = write(1, s, n);
	(void)r;
}

int vf_case_begin(const char *fmt, ...) {
	va_list ap;
	if (g_in_case) vf_harness_error("vf_case_begin inside a case (%s)", g_case);
	g_counter++;
	if (g_replay == NULL && !g_obs_sample) {
		if ((g_counter % g_nshards) != g_shard) return 0;
		if (g_counter <= g_skip_until) return 0;
		if (g_deadline_passed) { S->skipped_deadline++; return 0; }
		if (g_deadline > 0 && now_s() > g_deadline) {   /* checked for every case of this shard (the counter test used before let only shard 0 see it) */
			g_deadline_passed = 1;
			vf_inexhaustive("deadline reached in shard %d at enumeration index %ld", g_shard, g_counter);
			S->skipped_deadline++;
			return 0;
		}
	}
	va_start(ap, fmt);
	vsnprintf(g_case, sizeof(g_case), fmt, ap);
	va_end(ap);
	if (g_list_only) { char l[CASE_MAX + 16]; snprintf(l, sizeof l, "CASE %s\n", g_case); out_line(l); return 0; }
	if (g_replay != NULL) {
		if (strcmp(g_case, g_replay) != 0) return 0;
		g_replay_matched++;
	} else if (g_obs_sample) {
		if ((g_counter % g_obs_stride) != 0 || g_obs_done >= g_obs_sample) return 0;
		g_obs_done++;
	}
	g_in_case = 1;
	g_case_failed = 0;
	g_obs_hash = vf_fnv(g_case, strlen(g_case), 0);
	if (S) {
		S->cur_counter = g_counter;
		memcpy(S->cur_case, g_case, strlen(g_case) + 1);
		S->in_case = 1;
	}
	alarm((unsigned)g_case_limit);
	return 1;
}

static void dset_add(uint64_t h) {
	uint32_t i;
	if (h == 0) h = 1;
	if (S->distinct > (long)(DSET_SIZE / 4 * 3)) { S->dset_saturated = 1; return; }
	i = (uint32_t)(h >> 17) & (DSET_SIZE - 1);
	for (;;) {
		if (S->dset[i] == h) return;
		if (S->dset[i] == 0) { S->dset[i] = h; S->distinct++; return; }
		i = (i + 1) & (DSET_SIZE - 1);
	}
}

void vf_case_end(int nontrivial) {
	if (!g_in_case) vf_harness_error("vf_case_end outside a case");
	alarm(0);
	g_in_case = 0;
	if (g_obs_sample) {
		char l[CASE_MAX + 64];
		snprintf(l, sizeof l, "OBS %s %016llx\n", g_case, (unsigned long long)g_obs_hash);
		out_line(l);
	}
	if (S) {
		S->executed++;
		if (nontrivial) { S->nontrivial++; dset_add(vf_fnv(g_case, strlen(g_case), 0)); }
		S->done_counter = g_counter;
		S->in_case = 0;
	}
}

void vf_obs(const char *fmt, ...) {
	char b[2048];
	va_list ap;
	va_start(ap, fmt);
	vsnprintf(b, sizeof b, fmt, ap);
	va_end(ap);
	g_obs_hash = vf_fnv(b, strlen(b), g_obs_hash);
	g_obs_hash = vf_fnv("|", 1, g_obs_hash);
}

void vf_outcome(const char *fmt, ...) {
	char b[120];
	int i;
	va_list ap;
	va_start(ap, fmt);
	vsnprintf(b, sizeof b, fmt, ap);
	va_end(ap);
	vf_obs("%s", b);
	if (!S) return;
	for (i = 0; i < NOUT; i++) {
		if (S->out[i].s[0] == 0) { strcpy(S->out[i].s, b); S->out[i].c = 1; return; }
		if (strcmp(S->out[i].s, b) == 0) { S->out[i].c++; return; }
	}
	S->nout_overflow = 1;
}

void vf_fail(const char *sig, const char *fmt, ...) {
	char d[3000], l[CASE_MAX + 3400];
	char *q;
	va_list ap;
	va_start(ap, fmt);
	vsnprintf(d, sizeof d, fmt, ap);
	va_end(ap);
	for (q = d; *q; q++) if (*q == '\n' || *q == '\t') *q = ' ';
	g_case_failed = 1;
	if (S) {
		S->violations++;
		if (S->viol_printed++ >= 300 && !g_replay) return;
	}
	snprintf(l, sizeof l, "VIOL %s\t%s\t%s\n", sig, g_case, d);
	out_line(l);
}

static int ctr_slot(const char *key, int is_max) {
	int i;
	for (i = 0; i < NCTR; i++) {
		if (S->ctr[i].key[0] == 0) {
			snprintf(S->ctr[i].key, sizeof S->ctr[i].key, "%s", key);
			S->ctr[i].is_max = is_max;
			return i;
		}
		if (strcmp(S->ctr[i].key, key) == 0) return i;
	}
	vf_harness_error("too many counters");
	return 0;
}
void vf_count(const char *key, long n) { if (S) S->ctr[ctr_slot(key, 0)].v += n; }
void vf_max(const char *key, long v) { if (S) { int i = ctr_slot(key, 1); if (v > S->ctr[i].v) S->ctr[i].v = v; } }

void vf_harness_error(const char *fmt, ...) {
	char d[2000], l[2200];
	va_list ap;
	va_start(ap, fmt);
	vsnprintf(d, sizeof d, fmt, ap);
	va_end(ap);
	snprintf(l, sizeof l, "HARNESS_ERROR %s [case %s]\n", d, g_case);
	out_line(l);
	if (S) S->harness_error = 1;
	_exit(2);
}

/* a harness error that concerns one part of the enumeration only: it is reported (and makes the check fail with a harness
 * error unless a violation is found elsewhere), the rest of the enumeration goes on */
void vf_soft_error(const char *fmt, ...) {
	char d[2000], l[2200];
	va_list ap;
	va_start(ap, fmt);
	vsnprintf(d, sizeof d, fmt, ap);
	va_end(ap);
	snprintf(l, sizeof l, "HARNESS_ERROR %s\n", d);
	out_line(l);
}

void vf_sample(const char *fmt, ...) {
	va_list ap;
	if (!S || S->nsamples >= NSAMP) return;
	va_start(ap, fmt);
	vsnprintf(S->samples[S->nsamples], sizeof S->samples[0], fmt, ap);
	va_end(ap);
	S->nsamples++;
}

void vf_inexhaustive(const char *fmt, ...) {
	va_list ap;
	char b[200];
	int i;
	if (!S) return;
	va_start(ap, fmt);
	vsnprintf(b, sizeof b, fmt, ap);
	va_end(ap);
	for (i = 0; i < S->ninexh; i++) if (strcmp(S->inexh[i], b) == 0) return;
	if (S->ninexh < 4) strcpy(S->inexh[S->ninexh++], b);
}

/* ------------------------------------------------------------------ allocation funnel */
long vf_alloc_count, vf_alloc_live, vf_alloc_fail_at, vf_alloc_fail_at2, vf_alloc_failed;
void vf_alloc_reset(void) { vf_alloc_count = 0; vf_alloc_fail_at = 0; vf_alloc_fail_at2 = 0; vf_alloc_failed = 0; }
static int alloc_should_fail(void) {
	vf_alloc_count++;
	if ((vf_alloc_fail_at && vf_alloc_count == vf_alloc_fail_at) ||
	    (vf_alloc_fail_at2 && vf_alloc_count == vf_alloc_fail_at2)) { vf_alloc_failed++; return 1; }
	return 0;
}
void *vf_malloc(size_t n) {
	void *p;
	if (alloc_should_fail()) return NULL;
	p = malloc(n);
	if (p) vf_alloc_live++;
	return p;
}
void *vf_calloc(size_t a, size_t b) {
	void *p;
	if (alloc_should_fail()) return NULL;
	p = calloc(a, b);
	if (p) vf_alloc_live++;
	return p;
}
void vf_free(void *p) {
	if (p) vf_alloc_live--;
	free(p);
}

/* ------------------------------------------------------------------ crash report parsing */
static void summarize_errlog(const char *path, char *kind, size_t kn, char *where, size_t wn, char *line1, size_t ln) {
	FILE *f = fopen(path, "r");
	char buf[1024];
	kind[0] = where[0] = line1[0] = 0;
	if (!f) return;
	while (fgets(buf, sizeof buf, f)) {
		char *p;
		if (!kind[0] && (p = strstr(buf, "ERROR: AddressSanitizer: "))) {
			char *e;
			p += strlen("ERROR: AddressSanitizer: ");
			e = strpbrk(p, " \n");
			if (e) *e = 0;
			snprintf(kind, kn, "%s", p);
			snprintf(line1, ln, "AddressSanitizer: %s", p);
		} else if (!kind[0] && (p = strstr(buf, "runtime error: "))) {
			char *e = strchr(p, '\n');
			if (e) *e = 0;
			snprintf(kind, kn, "ubsan");
			snprintf(line1, ln, "%s", buf);
		} else if (!kind[0] && (p = strstr(buf, "ERROR: LeakSanitizer"))) {
			snprintf(kind, kn, "leak");
			snprintf(line1, ln, "LeakSanitizer");
		}
		if (kind[0] && !where[0] && (p = strstr(buf, " in ")) && strstr(buf, "/src/ksi/")) {
			char *e;
			p += 4;
			e = strpbrk(p, " \n");
			if (e) *e = 0;
			snprintf(where, wn, "%s", p);
		}
	}
	fclose(f);
}

/* ------------------------------------------------------------------ main */
static void print_final(const vf_driver *drv) {
	int i;
	char l[1400];
	for (i = 0; i < NCTR && S->ctr[i].key[0]; i++) {
		snprintf(l, sizeof l, "%s %s %ld\n", S->ctr[i].is_max ? "MAX" : "STAT", S->ctr[i].key, S->ctr[i].v);
		out_line(l);
	}
	for (i = 0; i < NOUT && S->out[i].s[0]; i++) {
		snprintf(l, sizeof l, "OUTCOME %ld %s\n", S->out[i].c, S->out[i].s);
		out_line(l);
	}
	for (i = 0; i < S->nsamples; i++) {
		snprintf(l, sizeof l, "SAMPLE %s\n", S->samples[i]);
		out_line(l);
	}
	for (i = 0; i < S->ninexh; i++) {
		snprintf(l, sizeof l, "INEXHAUSTIVE %s\n", S->inexh[i]);
		out_line(l);
	}
	snprintf(l, sizeof l, "CASES property=%s executed=%ld nontrivial=%ld distinct=%ld skipped_deadline=%ld violations=%ld dset_saturated=%d enumerated=%ld\n",
	         drv->property, S->executed, S->nontrivial, S->distinct, S->skipped_deadline, S->violations, S->dset_saturated, g_counter);
	out_line(l);
}

int vf_main(int argc, char **argv, const vf_driver *drv) {
	int i;
	const char *errlog = NULL;
	double deadline_s = 0;
	int nofork = 0;
	for (i = 1; i < argc; i++) {
		if (!strcmp(argv[i], "--tier") && i + 1 < argc) vf_tier = !strcmp(argv[++i], "thorough");
		else if (!strcmp(argv[i], "--shard") && i + 1 < argc) g_shard = atoi(argv[++i]);
		else if (!strcmp(argv[i], "--nshards") && i + 1 < argc) g_nshards = atoi(argv[++i]);
		else if (!strcmp(argv[i], "--replay") && i + 1 < argc) g_replay = argv[++i];
		else if (!strcmp(argv[i], "--deadline") && i + 1 < argc) deadline_s = atof(argv[++i]);
		else if (!strcmp(argv[i], "--obs-sample") && i + 1 < argc) g_obs_sample = atoi(argv[++i]);
		else if (!strcmp(argv[i], "--obs-stride") && i + 1 < argc) g_obs_stride = atoi(argv[++i]);
		else if (!strcmp(argv[i], "--errlog") && i + 1 < argc) errlog = argv[++i];
		else if (!strcmp(argv[i], "--seed") && i + 1 < argc) vf_seed = atoi(argv[++i]);
		else if (!strcmp(argv[i], "--case-limit") && i + 1 < argc) g_case_limit = atoi(argv[++i]);
		else if (!strcmp(argv[i], "--nofork")) nofork = 1;
		else if (!strcmp(argv[i], "--list")) g_list_only = 1;
		else { fprintf(stderr, "usage: %s --tier quick|thorough [--shard i --nshards n] [--replay CASE] [--deadline s]\n", argv[0]); return 2; }
	}
	if (g_nshards < 1) g_nshards = 1;
	if (g_obs_stride < 1) g_obs_stride = 1;
	S = (shared_t *)mmap(NULL, sizeof(shared_t), PROT_READ | PROT_WRITE, MAP_SHARED | MAP_ANONYMOUS, -1, 0);
	if (S == MAP_FAILED) { perror("mmap"); return 2; }
	if (deadline_s > 0) g_deadline = now_s() + deadline_s;

	if (g_replay || g_obs_sample || g_list_only || nofork) {
		drv->run();
		if (g_replay) {
			char l[200];
			snprintf(l, sizeof l, "REPLAY matched=%ld violations=%ld\n", g_replay_matched, S->violations);
			out_line(l);
			if (g_replay_matched == 0) return 2;
			return S->violations ? 1 : 0;
		}
		if (nofork) print_final(drv);
		return S->violations ? 1 : 0;
	}

	/* crash-contained loop: the enumeration runs in a child; if the child dies inside a case the
	 * case is reported and a new child resumes after it. */
	{
		int restarts = 0;
		long total_enum = 0;
		for (;;) {
			pid_t pid;
			int st = 0;
			fflush(stdout);
			pid = fork();
			if (pid < 0) { perror("fork"); return 2; }
			if (pid == 0) {
				if (errlog) {
					int fd = open(errlog, O_WRONLY | O_CREAT | O_TRUNC, 0644);
					if (fd >= 0) { dup2(fd, 2); close(fd); }
				}
				g_skip_until = S->done_counter;
				g_counter = 0;
				drv->run();
				if (g_in_case) vf_harness_error("driver returned inside a case");
				S->cur_counter = -g_counter; /* signals normal completion, carries enumerated count */
				_exit(0);
			}
			while (waitpid(pid, &st, 0) < 0 && errno == EINTR) {}
			if (WIFEXITED(st) && WEXITSTATUS(st) == 0 && S->cur_counter <= 0) { total_enum = -S->cur_counter; break; }
			if (S->harness_error || (WIFEXITED(st) && WEXITSTATUS(st) == 2)) { out_line("HARNESS_ERROR child exited with harness error\n"); return 2; }
			/* abnormal end */
			{
				char kind[80], where[160], line1[400], l[CASE_MAX + 1200];
				const char *k;
				if (errlog) summarize_errlog(errlog, kind, sizeof kind, where, sizeof where, line1, sizeof line1);
				else kind[0] = where[0] = line1[0] = 0;
				if (WIFSIGNALED(st) && WTERMSIG(st) == SIGALRM) k = "hang";
				else if (kind[0]) k = kind;
				else if (WIFSIGNALED(st)) k = "signal";
				else k = "abort";
				if (!S->in_case) {
					snprintf(l, sizeof l, "HARNESS_ERROR child died outside a case (status 0x%x, %s %s) after case #%ld\n", st, kind, where, S->done_counter);
					out_line(l);
					return 2;
				}
				S->violations++;
				snprintf(l, sizeof l, "VIOL crash:%s:%s\t%s\tprocess ended abnormally (status 0x%x) %s\n", k, where[0] ? where : "?", S->cur_case, st, line1);
				out_line(l);
				S->done_counter = S->cur_counter;
				S->in_case = 0;
				S->executed++;
				if (++restarts > 40) {
					vf_inexhaustive("more than 40 crashes in one shard; enumeration stopped at case #%ld", S->cur_counter);
					break;
				}
			}
		}
		g_counter = total_enum;
	}
	print_final(drv);
	out_line("DONE\n");
	return S->violations ? 1 : 0;
}
