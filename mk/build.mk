# Builds the unit under test (libksi objects) from $(REPO)'s current working tree.
# Usage: make -f mk/build.mk -j16 REPO=/repo VARIANT=asan OUT=build/asan
REPO ?= /repo
VARIANT ?= asan
OUT ?= build/$(VARIANT)
VERIF := $(abspath $(dir $(lastword $(MAKEFILE_LIST)))/..)
HOOK := -DLIBKSI_VERIF

SRCDIR := $(REPO)/src/ksi
EXCL := hash_cryptoapi.c hash_commoncrypto.c net_http_winhttp.c net_http_winhttp_async.c \
        net_http_wininet.c net_http_wininet_async.c pkitruststore_cryptoapi.c
SRCS := $(filter-out $(EXCL),$(notdir $(wildcard $(SRCDIR)/*.c)))
OBJS := $(addprefix $(OUT)/obj/,$(SRCS:.c=.o))

COMMON := -g -DHAVE_CONFIG_H $(HOOK) -fno-omit-frame-pointer -I$(REPO)/src -I$(REPO)/src/ksi \
          -I$(VERIF)/harness/fallback -I$(VERIF)/harness/fallback/ksi -w
ifeq ($(VARIANT),asan)
CFLAGS_V := -O1 -fsanitize=address -fsanitize=bounds,null,return,unreachable,vla-bound -fno-sanitize-recover=all
else ifeq ($(VARIANT),fast)
CFLAGS_V := -O2
else ifeq ($(VARIANT),cov)
CFLAGS_V := -O0 --coverage
endif

all: $(OUT)/libksi_uut.a

$(OUT)/obj/base.o: $(SRCDIR)/base.c $(wildcard $(SRCDIR)/*.h) $(wildcard $(SRCDIR)/impl/*.h) | $(OUT)/obj
	gcc $(COMMON) $(CFLAGS_V) -Dmalloc=vf_malloc -Dcalloc=vf_calloc -Dfree=vf_free -c $< -o $@

$(OUT)/obj/%.o: $(SRCDIR)/%.c $(wildcard $(SRCDIR)/*.h) $(wildcard $(SRCDIR)/impl/*.h) | $(OUT)/obj
	gcc $(COMMON) $(CFLAGS_V) -c $< -o $@

$(OUT)/libksi_uut.a: $(OBJS)
	rm -f $@ && ar rcs $@ $(OBJS)

$(OUT)/obj:
	mkdir -p $@
