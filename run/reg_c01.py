"""C01 registry entry."""
PID = 'C01'
SPEC = dict(
    driver='c01_internal',
    extra=['ref/ref.c', 'ref/ref_sig.c', 'simnet.c'],
    rule='Bounded-exhaustive enumeration of constructed signatures. A case is one signature: (f2) product of chain algorithm x document '
         'algorithm x aggregation time around the SHA-1 cut-off x tail form (none / calendar / +publication / +authentication record) x RFC3161 '
         'record x 1..3 chains; (f1) every link mix (direction x sibling kind {imprint, legacy id, metadata padded / unpadded} x level correction) '
         'for every chain-shape in the bound; (single) every catalogue mutation (63 semantic mutations, downstream hashes recomputed so that only the '
         'intended condition breaks) on every base of a 48-element base family; (pair) every pair of catalogue mutations; (byte) every offset x '
         '{^01,^80,=00,=ff} of serialized bases, re-read by the strict reference parser. The oracle is the reference evaluator of INT-01..INT-17 '
         '(harness/ref/ref_sig.c) applied to the same signature. Distinct = distinct case name; non-trivial = the library verdict was compared '
         'with the reference verdict (byte mutations the reference parser does not understand are executed for memory safety only and not counted). '
         'Further: every verdict is repeated with admissible input levels and in a long-lived verification context; RFC3161 algorithm ids beyond 32 bits; part builder (KSI_SignatureBuilder closed again after a refused close with changed components). '
         'RFC3161 record index with one element more / less than the first chain\'s. '
         'Calendar chain without aggregation time element whose links have the shape of the previous second. '
         'Builder scenarios with a root level (the level added to the first link breaks / completes the chain); the padding element coded with the long header (as carried, and hashed as if short). A middle value of a later chain\'s index changed.'
         ' Part tail-without-calendar: a publication or calendar authentication record kept while the calendar chain is removed (48 bases x 3): never OK.',
    bounds=dict(
        quick='f2: 1440 bases; f1: chain shapes {1},{2},{1,1},{2,1},{1,2} links with 16 descriptors per link; single: 48 bases x 63 mutations; pairs: 8 bases x all pairs; byte: 2 bases x every offset x 4 operators',
        thorough='f1: shapes up to {2,2} and {1,1,1} with 24 descriptors per link; pairs on all 48 bases; byte mutations on 7 bases'),
    technique='bounded-exhaustive construction + mutation enumeration on the compiled code, verdict compared with an independent reference evaluator of the KSI consistency conditions',
    level_text='Every signature of a stated finite family (all link mixes up to a shape bound, all tails, every single and pairwise semantic mutation, every single-byte substitution of selected bases) is run through the real parser and internal policy and the verdict (return code, result code, error code) is compared with an independent reference evaluator. The property is an input/output equivalence ("OK exactly when consistent"), which a complete enumeration around each condition decides within the bound; nothing is sampled.',
    level_note='Trusted: OpenSSL digests, the reference model in harness/ref/ref_sig.c (transcribed from the KSI format and the documented INT codes), sanitizers. INT-16 cannot be produced positively (no parseable algorithm is obsolete); Metadata with long TLV headers is judged as carried.',
    require_outcomes=['consistent:OK', 'single:INT-01:FAIL', 'single:INT-02:FAIL', 'single:INT-03:FAIL', 'single:INT-04:FAIL', 'single:INT-05:FAIL',
                      'single:INT-06:FAIL', 'single:INT-07:FAIL', 'single:INT-08:FAIL', 'single:INT-09:FAIL', 'single:INT-10:FAIL', 'single:INT-11:FAIL',
                      'single:INT-12:FAIL', 'single:INT-13:FAIL', 'single:INT-14:FAIL', 'single:INT-15:FAIL', 'single:INT-17:FAIL', 'multi:not-ok', 'byte:judged'],
    assumptions=['OpenSSL EVP digest primitives are correct', 'reference evaluator encodes the documented conditions INT-01..INT-17'],
)
