"""C17 registry entry."""
PID = 'C17'
SPEC = dict(
    driver='c17_pubstring',
    extra=['ref/ref.c', 'simnet.c', 'ref/ref_b32.c'],
    rule='tbd', bounds=dict(quick='tbd', thorough='tbd'), technique='tbd', level_text='tbd', level_note='tbd',
    require_outcomes=[], assumptions=[],
)
