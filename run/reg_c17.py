"""C17 registry entry."""
PID = 'C17'
SPEC = dict(
    driver='c17_pubstring',
    extra=['ref/ref.c', 'simnet.c', 'ref/ref_b32.c'],
    rule='Exhaustive enumeration, no sampling. Part e: one case per (publication time, algorithm id, digest pattern): '
         'KSI_PublicationData_toBase32 is compared with the reference string and KSI_PublicationData_fromBase32 must give back the time and imprint. '
         'Part b: one case per (group length, byte length) for KSI_base32Encode, per byte length / per first byte value for KSI_base32Decode '
         '(every pair of byte values between two fixed symbols), per length for KSI_crc32 (incl. every split point of the documented continuation). '
         'Part m: one case per (base string, mutation family); inside the case EVERY mutation of the family is decoded by the library and judged: '
         'sub = all 31 x nsym single-symbol substitutions, xp = all adjacent transpositions of different symbols (+ symbol<->dash swaps), '
         'byte = all 255 other byte values at every character position, ins = all 255 byte values inserted at every position, '
         'len = last 1..8 symbols removed / string cut by 1..10 characters / 1..8 consecutive symbols removed at every position / 1..8 copies of each of the 32 symbols appended, '
         'alg = algorithm byte replaced by every id 0..255 and digest length 0..70 with a recomputed (correct) CRC. '
         'Oracle per mutated string: the library rejects it, or returns exactly the (time, imprint) of the reference decoding of the string with all characters outside '
         'A-Z 2-7 - = removed (lowercase letters: removed or read as uppercase). The reference decoder rejects CRC mismatch, unknown algorithm, byte length != 13 + digest length '
         'and a whole surplus symbol. Distinct = distinct case name; non-trivial = at least one library result was compared with the reference. '
         'Further: special times 2^31, 2^39, 2^63-1, 0x123456789abcdef0; KSI_PublicationRecord_toBase32; after every refused string two hashes created on the context must be distinct and correct. '
         'Surplus symbols followed by 1..6 pad characters; the valid string followed by 1..8 pad characters.',
    bounds=dict(
        quick='e: times {0,1,2^31-1,2^32-1,2^32,2^63,2^64-1} and 2..255 x algorithm ids {0,1,2,4,5,7,8,9,10,11} x digests {all 00, all ff, counter} (7830 strings). '
              'b: encode lengths 0..40 x 13 group lengths {0..9,13,40,100} x 4 patterns; decode of all reference encodings (lengths 0..40, groups 0..9, padded/unpadded, upper/lower case) '
              'and of "M c1 c2 Z" for all 65536 byte pairs; crc lengths 0..40,63..65,255..257,1000 with all split points. '
              'm: 90 base strings = every algorithm x times {1, 2^32-1, 2^64-1} x 3 digest patterns, all six mutation families in full (about 4.8 million mutated strings)',
        thorough='as quick, with m over all 7830 base strings of part e (about 419 million mutated strings)'),
    technique='exhaustive enumeration of all single-character mutations of valid publication strings on the compiled code (ASan+UBSan), judged by an independent reference encoder/decoder',
    level_text='Every element of the stated finite space is executed on the real libksi object code under ASan/UBSan and compared with an independent reference '
               '(RFC 4648 base-32, bitwise CRC-32, publication string layout); nothing is sampled. The property is a universally quantified statement about a pure string codec: '
               'for a given valid string the set of single-symbol substitutions, adjacent transpositions, single-byte replacements/insertions and end-length changes is finite and is covered completely, '
               'and the base strings cover every known algorithm (every digest length and every count of unused trailing bits 0,1,2,4), boundary times and digests that make every symbol value occur. '
               'CRC-32 detects every error burst of up to 32 bits, so a correct implementation must reject all of these mutations except changes of the unused trailing bits.',
    level_note='Trusted: the reference in harness/ref/ref.c (ref_crc32, ref_b32_encode, ref_pubstring) and harness/ref/ref_b32.c (decoder), cross-checked against each other and against the CRC check value; gcc sanitizers. '
               'Times outside the listed values and digests other than the three patterns are not covered; multi-symbol corruptions are outside the property.',
    require_outcomes=['e:roundtrip:ok', 'e:decode-reference-string:ok', 'b:enc:equal', 'b:dec:alphabet:equal', 'b:dec2:nonalphabet:rejected', 'b:crc:compared',
                      'sub:ref-rej:lib-rej', 'sub:ref-ok:*', 'xp:ref-rej:lib-rej', 'xpdash:ref-ok:*', 'byte:ref-rej:lib-rej', 'ins:ref-rej:lib-rej', 'ins:ref-ok:*',
                      'len-:ref-rej:lib-rej', 'len+:ref-rej:lib-rej', 'alg:same-length-known-id:checked', 'alg:unknown-id:checked', 'alg:known-id-other-length:checked'],
    assumptions=['the reference CRC-32 / base-32 / publication-string code in harness/ref is a faithful transcription of IEEE 802.3 CRC-32, RFC 4648 base-32 and the KSI publication string layout',
                 'the property text fixes the symbols and the grouping of the encoded string; trailing RFC 4648 "=" padding emitted by the library (with its separators) is accepted and only its count is checked',
                 'lowercase letters are treated as case-insensitive forms of the alphabet: a string with a lowercase letter may be rejected, or decoded with the letter removed or read as uppercase',
                 '"wrong total length" is read literally: a valid string followed by one whole surplus symbol has a wrong length and must be rejected even though the surplus bits are discarded',
                 'when only unused trailing bits of the last symbol differ, the library may either return the identical data or reject'],
    deadline=dict(quick=600, thorough=2400),
)
