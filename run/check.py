#!/usr/bin/env python3
"""check.py <property-id> [--tier quick|thorough]

Builds the unit under test from the repository's current working tree, builds the property's
driver, runs it sharded over the cores, aggregates the shard reports, matches violations against
known_findings.txt, writes replay files and evidence/<id>.json, prints VIOLATION / KNOWN-FINDING
lines and sets the exit code (0 held, 1 violation, 2 harness error)."""
import sys, os, subprocess, json, time, hashlib, fnmatch, shutil, argparse, re

VERIF = os.path.dirname(os.path.dirname(os.path.abspath(__file__)))
sys.path.insert(0, os.path.join(VERIF, 'run'))
from registry import PROPS  # noqa: E402


def sh(cmd, **kw):
    return subprocess.run(cmd, shell=isinstance(cmd, str), stdout=subprocess.PIPE, stderr=subprocess.STDOUT, text=True, errors='replace', **kw)


def build(repo, variant, drv, spec, log):
    tag = variant if os.path.realpath(repo) == '/repo' else 'alt_%s_%s' % (hashlib.md5(os.path.realpath(repo).encode()).hexdigest()[:8], variant)
    out = os.path.join(VERIF, 'build', tag)
    r = sh(['make', '-s', '-f', os.path.join(VERIF, 'mk', 'build.mk'), '-j16', 'REPO=' + repo, 'VARIANT=' + variant, 'OUT=' + out], cwd=VERIF)
    if r.returncode != 0:
        log.write(r.stdout)
        return None, 'library build failed:\n' + r.stdout[-3000:]
    bindir = os.path.join(out, 'bin')
    os.makedirs(bindir, exist_ok=True)
    exe = os.path.join(bindir, drv)
    srcs = [os.path.join(VERIF, 'harness', drv + '.c'), os.path.join(VERIF, 'harness', 'vf.c')]
    srcs += [os.path.join(VERIF, 'harness', s) for s in spec.get('extra', ['ref/ref.c', 'simnet.c'])]
    lib = os.path.join(out, 'libksi_uut.a')
    hdrs = []
    for root, _, files in os.walk(os.path.join(VERIF, 'harness')):
        hdrs += [os.path.join(root, f) for f in files if f.endswith('.h') or f.endswith('.inc')]
    deps = srcs + [lib] + hdrs
    if os.path.exists(exe) and all(os.path.getmtime(exe) >= os.path.getmtime(d) for d in deps):
        return exe, None
    if variant == 'asan':
        fl = '-O1 -g -fsanitize=address -fsanitize=bounds,null,return,unreachable,vla-bound -fno-sanitize-recover=all -fno-omit-frame-pointer'
    else:
        fl = '-O2 -g'
    cmd = 'gcc %s -DHAVE_CONFIG_H -DLIBKSI_VERIF -DCURL_DISABLE_TYPECHECK -w -I%s/src -I%s/src/ksi -I%s/harness/fallback -I%s/harness/fallback/ksi -I%s/harness %s %s %s -lcrypto -o %s' % (
        fl, repo, repo, VERIF, VERIF, VERIF, spec.get('cflags', ''), ' '.join(srcs), lib, exe)
    if spec.get('omit_objs'):
        # link individual objects instead of the archive, leaving out the ones the driver re-compiles
        objs = [os.path.join(out, 'obj', o) for o in sorted(os.listdir(os.path.join(out, 'obj'))) if o not in spec['omit_objs']]
        cmd = cmd.replace(lib, ' '.join(objs))
    r = sh(cmd, cwd=VERIF)
    if r.returncode != 0:
        return None, 'driver build failed:\n' + cmd + '\n' + r.stdout[-4000:]
    return exe, None


def load_known():
    known, path = [], os.path.join(VERIF, 'known_findings.txt')
    if os.path.exists(path):
        for line in open(path):
            line = line.strip()
            if not line.startswith('known:'):
                continue
            body, _, what = line[len('known:'):].partition('|')
            kv = dict(tok.split('=', 1) for tok in body.split() if '=' in tok)
            known.append(dict(property=kv.get('property'), sig=kv.get('sig', '*'), case=kv.get('case', '*'), what=what.strip()))
    return known


ASAN_ENV = 'detect_leaks=0:abort_on_error=0:allocator_may_return_null=1:handle_abort=1:symbolize=1:detect_stack_use_after_return=0:malloc_context_size=12'


def main():
    ap = argparse.ArgumentParser()
    ap.add_argument('prop')
    ap.add_argument('--tier', default=os.environ.get('VERIF_TIER', 'quick'))
    ap.add_argument('--jobs', type=int, default=int(os.environ.get('VERIF_JOBS', '16')))
    ap.add_argument('--deadline', type=float, default=None)
    a = ap.parse_args()
    pid, tier = a.prop, a.tier if a.tier in ('quick', 'thorough') else 'quick'
    seed = int(os.environ.get('VERIF_SEED', '0') or 0)
    repo = os.environ.get('VERIF_REPO', '/repo')
    spec = PROPS[pid]
    t0 = time.time()
    # a run against another tree (seeded-change audit) keeps its logs and replay files apart from those of /repo
    logdir = 'log' if os.path.realpath(repo) == '/repo' else 'log_alt_%s' % hashlib.md5(os.path.realpath(repo).encode()).hexdigest()[:8]
    os.makedirs(os.path.join(VERIF, 'build', logdir), exist_ok=True)
    os.makedirs(os.path.join(VERIF, 'evidence'), exist_ok=True)
    logpath = os.path.join(VERIF, 'build', logdir, '%s.%s.log' % (pid, tier))
    log = open(logpath, 'w')
    env = dict(os.environ, ASAN_OPTIONS=ASAN_ENV, UBSAN_OPTIONS='print_stacktrace=1', VERIF_DIR=VERIF, VERIF_REPO=repo)
    env.update(spec.get('env', {}))

    def harness_error(msg):
        print('HARNESS-ERROR property=%s %s' % (pid, msg))
        log.write('HARNESS-ERROR ' + msg + '\n')
        sys.exit(2)

    drivers = spec['drivers'] if 'drivers' in spec else [spec]
    agg = dict(stat={}, mx={}, outcomes={}, samples=[], inexh=[], executed=0, nontrivial=0, distinct=0, skipped=0, enumerated=0, saturated=0)
    viols = []  # (drv, exe, variant, sig, case, detail)
    deferred = []  # harness errors of single shards: reported after the violations other shards (or earlier cases) found
    drv_args = {}
    for d in drivers:
        drv, variant = d['driver'], d.get('variant', 'asan')
        exe, err = build(repo, variant, drv, d, log)
        if err:
            harness_error(err)
        deadline = a.deadline if a.deadline is not None else d.get('deadline', {}).get(tier, 1500 if tier == 'quick' else 2400)
        nshards = max(1, min(a.jobs, d.get('shards', {}).get(tier, 16)))
        base = [exe, '--tier', tier, '--seed', str(seed), '--case-limit', str(d.get('case_limit', {}).get(tier, 300))] + d.get('args', [])
        drv_args[drv] = base[5:]
        # determinism self-test: the same sampled cases in two separate processes
        stride = d.get('obs_stride', {}).get(tier, 97)
        for st in (stride, 7, 1):
            o1 = sh(base + ['--obs-sample', '40', '--obs-stride', str(st)], env=env, cwd=VERIF)
            l1 = [l for l in o1.stdout.splitlines() if l.startswith('OBS ')]
            if len(l1) >= 3 or st == 1:
                break
        o2 = sh(base + ['--obs-sample', '40', '--obs-stride', str(st)], env=env, cwd=VERIF)
        l2 = [l for l in o2.stdout.splitlines() if l.startswith('OBS ')]
        if l1 != l2 or not l1:
            log.write(o1.stdout + '\n----\n' + o2.stdout)
            crashed = ('AddressSanitizer' in o1.stdout or 'runtime error' in o1.stdout)
            if not crashed:
                harness_error('determinism self-test failed for %s: %d vs %d observation lines (see %s)' % (drv, len(l1), len(l2), logpath))
        agg['stat']['selftest_replayed_cases'] = agg['stat'].get('selftest_replayed_cases', 0) + len(l1)
        procs = []
        for s in range(nshards):
            errlog = os.path.join(VERIF, 'build', logdir, '%s.%s.%s.%d.err' % (pid, tier, drv, s))
            cmd = base + ['--shard', str(s), '--nshards', str(nshards), '--deadline', str(deadline), '--errlog', errlog]
            # shard output goes to files: a pipe that is not being read would block a chatty shard
            outf = open(errlog[:-4] + '.out', 'w+', errors='replace')
            errf = open(errlog[:-4] + '.stderr', 'w+', errors='replace')
            procs.append((s, errlog, subprocess.Popen(cmd, stdout=outf, stderr=errf, env=env, cwd=VERIF), outf, errf))
        for s, errlog, p, outf, errf in procs:
            p.wait()
            outf.seek(0); errf.seek(0)
            out, err = outf.read(), errf.read()
            outf.close(); errf.close()
            log.write('== %s shard %d rc=%d\n%s\n%s\n' % (drv, s, p.returncode, out[-200000:], err[-5000:]))
            done = False
            for line in out.splitlines():
                if line.startswith('VIOL '):
                    parts = line[5:].split('\t')
                    while len(parts) < 3:
                        parts.append('')
                    viols.append((drv, exe, variant, parts[0], parts[1], parts[2]))
                elif line.startswith('STAT '):
                    _, k, v = line.split(' ', 2)
                    agg['stat'][k] = agg['stat'].get(k, 0) + int(v)
                elif line.startswith('MAX '):
                    _, k, v = line.split(' ', 2)
                    agg['mx'][k] = max(agg['mx'].get(k, 0), int(v))
                elif line.startswith('OUTCOME '):
                    _, c, s_ = line.split(' ', 2)
                    agg['outcomes'][s_] = agg['outcomes'].get(s_, 0) + int(c)
                elif line.startswith('SAMPLE '):
                    if len(agg['samples']) < 12:
                        agg['samples'].append(line[7:])
                elif line.startswith('INEXHAUSTIVE '):
                    agg['inexh'].append(line[13:])
                elif line.startswith('HARNESS_ERROR'):
                    deferred.append('%s shard %d: %s' % (drv, s, line))
                elif line.startswith('CASES '):
                    kv = dict(t.split('=') for t in line.split()[1:])
                    agg['executed'] += int(kv['executed']); agg['nontrivial'] += int(kv['nontrivial'])
                    agg['distinct'] += int(kv['distinct']); agg['skipped'] += int(kv['skipped_deadline'])
                    agg['enumerated'] = max(agg['enumerated'], int(kv['enumerated'])); agg['saturated'] |= int(kv['dset_saturated'])
                elif line == 'DONE':
                    done = True
            if (not done or p.returncode not in (0, 1)) and not any(x.startswith('%s shard %d:' % (drv, s)) for x in deferred):
                deferred.append('%s shard %d ended without a report (rc=%d); see %s' % (drv, s, p.returncode, logpath))

    # ---- classify violations
    known = load_known()
    replay_dir = os.path.join(VERIF, 'build', 'replay' if logdir == 'log' else logdir.replace('log', 'replay', 1), pid)
    shutil.rmtree(replay_dir, ignore_errors=True)
    os.makedirs(replay_dir, exist_ok=True)
    new, kf_hit = [], {}
    seen_sig = {}
    for (drv, exe, variant, sig, case, detail) in viols:
        hit = None
        for k in known:
            if k['property'] == pid and fnmatch.fnmatchcase(sig, k['sig']) and fnmatch.fnmatchcase(case, k['case']):
                hit = k
                break
        if hit:
            kf_hit.setdefault((hit['sig'], hit['case'], hit['what']), 0)
            kf_hit[(hit['sig'], hit['case'], hit['what'])] += 1
        else:
            new.append((drv, exe, variant, sig, case, detail))
    for (sig, case, what), n in kf_hit.items():
        print('KNOWN-FINDING: property=%s %s (sig=%s case=%s, %d occurrence(s))' % (pid, what, sig, case, n))
    # replay-before-report: re-run (a bounded number of) new violations alone
    rc = 0
    reported = 0
    for i, (drv, exe, variant, sig, case, detail) in enumerate(new):
        path = os.path.join(replay_dir, '%d.case' % i)
        json.dump(dict(property=pid, driver=drv, variant=variant, tier=tier, seed=seed, signature=sig, case=case, detail=detail,
                       replay_cmd='run/replay.sh %s' % path), open(path, 'w'), indent=1)
        if reported < 25:
            if seen_sig.get(sig, 0) < 3:
                r = sh([exe, '--tier', tier, '--seed', str(seed)] + drv_args.get(drv, []) + ['--replay', case], env=env, cwd=VERIF)
                reproduced = ('VIOL ' in r.stdout) or ('AddressSanitizer' in r.stdout) or ('runtime error' in r.stdout) or r.returncode not in (0, 2)
                if not reproduced:
                    log.write('NOT REPRODUCED: %s %s\n%s\n' % (sig, case, r.stdout[-3000:]))
                    harness_error('violation %s in case %s did not reproduce on replay (nondeterministic harness); see %s' % (sig, case, logpath))
            seen_sig[sig] = seen_sig.get(sig, 0) + 1
            print('VIOLATION property=%s replay=%s  [%s] %s :: %s' % (pid, path, sig, case[:300], detail[:500]))
            reported += 1
        rc = 1
    if len(new) > reported:
        print('... %d further violations (replay files in %s)' % (len(new) - reported, replay_dir))

    # ---- harness errors of shards: with a confirmed violation at hand the violation is the result; otherwise nothing is believed
    if deferred:
        if rc == 0:
            harness_error(deferred[0])
        for m in deferred[:3]:
            print('NOTE part of the enumeration did not run on this tree: %s' % m[:300])

    # ---- vacuity guards (only meaningful when the run found nothing: a violating tree may well lack an expected outcome)
    for need in (spec.get('require_outcomes', []) if not new else []):
        if not any(fnmatch.fnmatchcase(o, need) for o in agg['outcomes']):
            if not agg['skipped']:
                harness_error('vacuity guard: no outcome matching %r was produced' % need)

    exhaustive = (agg['skipped'] == 0 and not agg['inexh'])
    wall = time.time() - t0
    level = spec.get('level', 'model_checking')
    evaluations = agg['stat'].get('impl_calls', agg['executed'])
    cov = dict(
        evaluations=int(max(evaluations, agg['executed'])),
        distinct_nontrivial=int(agg['distinct']),
        rule=spec['rule'],
        samples=agg['samples'] or ['(no sample recorded)'],
        states=int(max(agg['stat'].get('states', agg['executed']), 1)),
        transitions=int(max(agg['stat'].get('transitions', evaluations), 1)),
        traces_validated_against_impl=int(agg['stat'].get('traces', agg['executed'])),
        exhaustive=bool(exhaustive),
        cases_executed=int(agg['executed']),
        cases_nontrivial=int(agg['nontrivial']),
        cases_skipped_by_deadline=int(agg['skipped']),
        distinct_count_saturated=bool(agg['saturated']),
        distinct_outcomes=len(agg['outcomes']),
        outcomes=dict(sorted(agg['outcomes'].items(), key=lambda kv: -kv[1])[:60]),
        counters=agg['stat'], maxima=agg['mx'],
        bounds=spec.get('bounds', {}).get(tier, ''),
        inexhaustive_reasons=agg['inexh'][:8],
        known_findings_matched=sum(kf_hit.values()),
        explanation=spec.get('explanation', ''),
    )
    ev = dict(property_id=pid, tier=tier, seed=seed, level=level, coverage=cov, assumptions=spec.get('assumptions', []),
              wall_s=round(wall, 2), violations=len(new))
    # evidence/<id>.json describes runs on /repo; a run against another tree leaves its record next to its logs
    json.dump(ev, open(os.path.join(VERIF, 'evidence', pid + '.json') if logdir == 'log' else os.path.join(VERIF, 'build', logdir, pid + '.evidence.json'), 'w'), indent=1)
    print('%s %s: cases=%d nontrivial=%d distinct=%d impl_calls=%d outcomes=%d violations=%d known=%d exhaustive=%s wall=%.1fs' % (
        pid, tier, agg['executed'], agg['nontrivial'], agg['distinct'], evaluations, len(agg['outcomes']), len(new), sum(kf_hit.values()), exhaustive, wall))
    sys.exit(rc)


if __name__ == '__main__':
    main()
