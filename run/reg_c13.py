"""C13 registry entry."""
PID = 'C13'
SPEC = dict(
    drivers=[dict(driver='c13_async', extra=['ref/ref.c', 'ref/ref_sig.c', 'ref/ref_pdu.c', 'simnet.c'], omit_objs=['net_tcp_async.o'], deadline=dict(quick=900, thorough=5400), case_limit=dict(quick=600, thorough=1800)),
             dict(driver='c13_async_http', extra=['ref/ref.c', 'ref/ref_sig.c', 'ref/ref_pdu.c', 'simnet.c'], omit_objs=['net_http_curl_async.o'], deadline=dict(quick=600, thorough=2400), case_limit=dict(quick=600, thorough=1800))],
    rule='Explicit-state search over event histories of the asynchronous signing service on the simulated TCP transport. Events: add request, run, server reply to the '
         'oldest / newest outstanding request, duplicate reply, unknown id, stale id generation of the same cache slot, bad MAC, error status, error PDU, pushed configuration, '
         'deliver 1 byte / half / all of the queued server output, peer close, refuse / keep pending the next connect, would-block / partial send, clock +1 s / + beyond all timeouts. '
         'A state is the history reaching it, rebuilt on a fresh context for every expansion; it is de-duplicated by a canonical key over the client (cache slots, counters, '
         'id generation), the TCP transport (connection, input buffer, request / response queues, round counters, read through the private struct), the environment (undelivered bytes, budget, flags), '
         'ages of all timers relative to the virtual clock (capped at timeout+1) and the shadow model. The invariant (exactly-once, matched completion, explained errors, cache-full exactness, '
         'pending count) is evaluated after every event and a drain phase from EVERY state checks that no accepted request is lost. states = distinct canonical states expanded, '
         'transitions = events executed on the implementation, traces = histories replayed. Part "conf": the same search over a second alphabet that adds configuration requests '
         '(add configuration request, add, run, configuration payload, reply, error PDU, deliver all, peer close, clock; thorough: + deliver half, would-block): a configuration request '
         'bears no id and is answered by an authentic configuration payload that reaches the client after it was accepted; it counts as an outstanding request for the cache-full rule and may '
         'also be refused while another configuration request is outstanding.',
    bounds=dict(quick='8 configurations (cache size 1..3, per-round limit 1..2, timeouts 0/1/10); all histories up to depth 6 (5 for 4 configurations, -1 for cache size 3) over the 21-event alphabet, state-hash pruned; conf part: 2 configurations, depth 6 over 9 events',
                thorough='depth 8 (7 for cache size 3); conf part: 3 configurations, depth 8 over 11 events'),
    technique='explicit-state search (DFS with replay and canonical-state de-duplication) over the real client code under a harness-owned network and clock; shadow state machine as oracle',
    level_text='All event histories up to the depth bound are explored on the real asynchronous client with every socket answer and the clock owned by the harness; revisits of a canonical state are pruned. In every state the shadow machine checks exactly-once / matched completion, that every error has an actual cause, cache-full exactness and the pending count, and a drain from every state shows that nothing is lost. This is state exploration of the protocol core with 1-3 cache slots, the regime where exhaustive search is feasible.',
    level_note='Trusted: reference PDU model, simulated sockets, the canonical key (fields listed in state_key(); a field omitted there could only hide behaviours, never raise a false alarm). The HTTP transport (curl multi client) is explored by the second driver c13_async_http with its own 19-event alphabet (transfer completions: valid, reply for another outstanding request, bad MAC, status, error PDU, curl error, HTTP 500, empty, duplicated, truncated, garbage; 1-byte chunks; curl multi errors; clock) to depth 5 (thorough 7); the id-generation wrap is covered by the wrap part (264 / 300 sequential requests through one slot).',
    require_outcomes=['add-conf:accepted', 'add-conf:refused:cache-full', 'add-conf:refused:one-at-a-time', 'returned:conf-response', 'add:accepted', 'add:cache-full', 'returned:response', 'returned:error:service-status', 'returned:error:receive-timeout', 'returned:error:connection', 'returned:error:bad-data', 'returned:push-config'],
    assumptions=['the canonical key distinguishes all states with different futures'],
)
