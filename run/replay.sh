#!/bin/sh
# replay.sh <replay-file>: re-runs one recorded case without the explorer
set -e
V=$(cd "$(dirname "$0")/.." && pwd)
exec python3 "$V/run/replay.py" "$@"
