"""C04 registry entry."""
PID = 'C04'
SPEC = dict(
    driver='c04_anchor',
    extra=['ref/ref.c', 'ref/ref_sig.c', 'ref/ref_pdu.c', 'ref/ref_pki.c', 'simnet.c'],
    rule='Product enumeration of (signature form {no calendar chain, calendar chain, + publication record, + authentication record} x internally consistent / '
         'inconsistent) x trust anchor (user publication: absent, equal, same time other hash, later correct / wrong hash, earlier, at aggregation time; '
         'publications file: contains the publication, same time other hash, only later correct / wrong, only earlier, empty; source user-supplied, downloaded and '
         'PKI-verified, downloaded but signed by a rogue CA, HTTP 404, connection failure; certificate: absent, validity window ending before / exactly at / containing / '
         'starting exactly at / starting after the aggregation time, wrong key, altered PKI signature) x extending allowed or not x extender behaviour (10) under the user-publication, '
         'publications-file, key-based, calendar-based and general policies. The extender and the publications URL sit behind the simulated transport; the oracle is a '
         'reference decision procedure written from the statement (OK / FAIL with the documented code / inconclusive / not-OK). Extender replies include one whose calendar chain '
         'omits the aggregation time; the platform certificate store (OpenSSL default paths) holds only the rogue CA. Part reuse: ONE context verifies twice while its '
         'anchors change in between (publications URL changed / cache lifetime passed / cached file set aside, with the server now holding a file with or without the '
         'signature\'s publication; extender re-pointed to one with another calendar): the second verdict follows the anchors configured now. '
         'Publications file sources whose signer does not meet the context\'s certificate constraints (constraint on an attribute the subject lacks - after a matching one, or first - and a second constraint that differs). '
         'Extender behaviours left-link-as-right-lowest / -middle / -highest (another shape of the extender\'s chain). '
         'Key-based cases for a signature whose calendar chain has no aggregation time element; reuse case with a cache lifetime of 0 seconds.',
    bounds=dict(quick='all anchor kinds with the correct extender; the 9 deviating extender behaviours on the extension-needing scenarios (later-correct anchors, extending allowed)',
                thorough='deviating extender behaviours on every extension-capable anchor kind, both consistent and inconsistent signatures'),
    technique='exhaustive product enumeration of anchors x extender behaviours at the transport seam against the real policy code; reference decision procedure as oracle',
    level_text='Every element of the stated product is verified with the real policies against a simulated extender / publications server; the verdict class (and FAIL code where the statement fixes it) is compared with a reference decision procedure derived from the statement. Additionally no transport call may happen when extending is not allowed.',
    level_note='Trusted: reference signature / PDU / PKI models, OpenSSL, simulated transport. Where the statement leaves the verdict class open (e.g. reply with another input hash: PUB-01 or PUB-03 first) only "never OK" is asserted.',
    require_outcomes=['*:expect-OK:got-OK', '*:expect-FAIL:got-FAIL', '*:expect-INCONCLUSIVE:got-NA', 'key-policy:key:*:expect-OK:got-OK', 'calendar:expect-OK:got-OK', 'general:userpub:expect-OK:got-OK'],
    assumptions=['the fake transport delivers exactly what the handler produced'],
)
