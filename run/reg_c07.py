"""C07 registry entry."""
PID = 'C07'
SPEC = dict(
    driver='c07_sign',
    extra=['ref/ref.c', 'ref/ref_sig.c', 'ref/ref_pdu.c', 'simnet.c'],
    rule='Server-behaviour enumeration at the transport seam. A case = (interface {KSI_Signature_signAggregated, KSI_createSignature, KSI_Signature_signAggregatedWithPolicy with a caller context, the older names KSI_Signature_createAggregated / KSI_Signature_create, async service} x '
         'transport {TCP via simulated sockets, HTTP via fake libcurl} x PDU version x document hash algorithm x level x honest tree shape (6) x tail '
         '(no calendar / calendar / calendar+auth record) x server behaviour (17 classes, sub-indexed: 11 status codes, 8 ways of breaking internal '
         'consistency)). The reference aggregator answers the request bytes the client really emitted; the emitted request is re-parsed by the reference '
         '(hash, level, login id, MAC). Distinct = case name; all cases reach the oracle (success iff honest; result signature re-parsed and evaluated by the reference). '
         'Further: the older entry points KSI_Signature_createAggregated / KSI_Signature_create; status codes wider than 32 bits; a reported level correction just below 2^64 that wraps when the requested level is added; the completed asynchronous handle is asked for its signature twice. '
         'Server behaviour error-payload-with-response (authentic PDU with an error payload after / in front of the honest response). '
         'Inconsistent body: authentication / publication record without the calendar chain.'
         ' Server behaviour config-payload-with-response (the aggregator\'s configuration after / in front of the honest response in one authentic PDU: still a success). Part sign-confreq: one asynchronous request asking for a signature and the configuration (hash, level and configuration request on the wire; reply with both in one PDU).',
    bounds=dict(
        quick='KSI_Signature_signAggregationChain with a one-link local chain at input levels {0,1,3,17,200} x link correction {0,2} x 2 transports; server behaviours now include chains listed top-first and reply ids that differ from the request id only in the upper 32 bits; every behaviour (with all sub-variants) x 3 interfaces x 2 transports x levels {0,2} with one shape/algorithm per behaviour; PDU v1 for honest/foreign/stale/other-version; SHA-1 refusal on 4 interfaces x 2 transports',
        thorough='full product shape(6) x tail(3) x behaviour for SHA-256 at levels {0,2}, v2; all 4 trusted algorithms and levels {0,1,2,254,255} with one shape per behaviour; v1 with one shape per behaviour'),
    technique='exhaustive enumeration of a server-behaviour menu at the transport seam against the real client code; reference aggregator + reference signature evaluator as oracle',
    level_text='For every element of a finite menu of server behaviours (honest replies of every tree shape in the bound and every adversarial deviation named in the property) the real client code (blocking TCP, blocking HTTP, asynchronous service) is driven to completion against a simulated transport; success is required exactly for honest replies and the returned signature is re-parsed and re-evaluated by the independent reference. All behaviours in the menu are enumerated; nothing is sampled.',
    level_note='Trusted: reference PDU/HMAC/signature model (harness/ref), OpenSSL digests, the simulated transport (harness/simnet.c). Behaviours outside the menu (e.g. arbitrary byte garbage) are covered by C06/C12.',
    require_outcomes=['sign-chain:success', '*:success', '*:error', 'sha1:refused', 'async-tcp:success', 'async-http:success', 'signAggregated-tcp:success', 'createSignature-http:success'],
    assumptions=['the fake transport delivers exactly what the handler produced'],
)
