"""C10 registry entry."""
PID = 'C10'
SPEC = dict(
    driver='c10_schema',
    extra=['ref/ref.c', 'ref/ref_sig.c', 'ref/ref_pdu.c', 'ref/ref_pki.c', 'ref/ref_schema.c', 'simnet.c'],
    rule='Bounded-exhaustive mutation enumeration, nothing sampled. Base objects (33): 8 signatures (every tail form, RFC3161 record, legacy-id / metadata / imprint '
         'links, aggregation authentication record, input data, publication references and uris), 12 aggregation PDUs and 10 extension PDUs (v1 and v2 requests, '
         'responses with signature bodies / calendar chains incl. left-links-only and right-link-only chains, status-only responses, error PDUs, configuration and acknowledgment '
         'payloads), 3 publications files (test PKI). A single case (s:) is one base x one tree position (every node of the TLV tree, expanded wherever the reference schema says the element is a '
         'container) x one operator: delete, duplicate, duplicate with the N flag, swap with next sibling, move first / last, retag to every other tag of the '
         'container alphabet and to an unknown tag, each other (N,F) flag combination, shrink / grow the payload by one byte, insert an unknown element '
         '(critical / critical+forward / non-critical / non-critical+forward) before and (non-critical) after it, add a valid sample of every element of the container alphabet after it '
         '(schema-aware construction: combines exclusive alternatives, repeats single-valued elements with other content, breaks section order), and per value type: integers (leading zero, 00, 9 bytes, empty, '
         '8 bytes), strings (no terminator, embedded NUL, lone continuation, lead without / with too few continuations, lead followed by ASCII, ff, fe, valid 2/3/4 byte '
         'forms, overlong, f5 lead, zero length, empty), imprints (algorithm 03 / 06 / 0c / 7e / ff, length -1 / +1, empty, algorithm byte only, other valid algorithms), '
         'legacy ids (length 28 / 30, each fixed byte, string length 26 / ff, non-zero padding, 25 and 0 character names), octet strings (empty). A pair case (p:) is one base x '
         'one position x one operator of the reduced set, followed by every operator of the reduced set at every child of the same container of the mutated tree. Enclosing lengths '
         'are recomputed after every mutation (canonical headers), so only schema rules are violated, not framing. Oracle: the declarative reference schema '
         '(harness/ref/ref_schema.c: per container allowed tags, value types, mandatory / single / group / exclusive / positional flags) with a generic validator returning '
         'accept / reject / statement-silent; the typed parser must accept exactly when the schema accepts (silent verdicts are run for memory safety only). For accepted '
         'trees whose only change is an added unknown non-critical element: the known fields re-encoded from the typed object equal those of the base object, '
         'KSI_Signature_serialize returns the input bytes, and the internal verification verdict equals that of the base unless the element lies in hashed content. '
         'Distinct = distinct case name; non-trivial = at least one parser verdict was compared with the reference schema.',
    bounds=dict(
        quick='every base parsed unmodified; single operators on all 33 bases: every tree position x every operator (about 27.5 k mutated trees)',
        thorough='as quick, plus operator pairs on all 33 bases: first operator from the reduced set (delete, duplicate, duplicate+N, swap, move first / last, retag to the next alphabet '
                 'tag and to the unknown tag, set N, insert unknown critical / non-critical, first invalid value of the value type) at every position x second operator from the full '
                 'set at every child of the same container (about 5.4 M mutated trees)'),
    technique='bounded-exhaustive tree-mutation enumeration on the compiled parsers (ASan/UBSan, exactly sized heap input), verdict compared with an independent declarative schema table',
    level_text='Every (base object, tree position, operator) triple of a stated finite catalogue - and every same-container operator pair on a subset - is run through the real typed '
               'parsers (KSI_Signature_parseWithPolicy with the empty policy, KSI_AggregationPdu_parse, KSI_ExtendPdu_parse with the PDU version option, KSI_PublicationsFile_parse) and '
               'the accept / refuse verdict is compared with an independent reference schema written as data. The property is an input/output equivalence per schema rule; the catalogue '
               'exercises every template flag (mandatory, single-valued, group, exclusive, first / last / fixed order), every value check and the critical-flag rule at every position of '
               'every container, which decides the property within the bound. Nothing is sampled.',
    level_note='Trusted: the reference schema table (transcribed from the KSI format), the reference builders of the base objects, OpenSSL (test PKI), sanitizers. Statement-silent and therefore '
               'not judged: N / F flags on known elements, presence of header / MAC in PDUs and their position in v1 PDUs, unknown non-critical elements before a "first" or after a "last" '
               'element, UTF-8 rules beyond lead / continuation structure, empty non-empty strings, DER blobs other than those of '
               'the base objects. Header form (TLV8 / TLV16) is always the shortest one (framing is C09).',
    require_outcomes=['sig:valid:accepted', 'sig:invalid:refused', 'aggr1:valid:accepted', 'aggr1:invalid:refused', 'aggr2:valid:accepted', 'aggr2:invalid:refused',
                      'ext1:valid:accepted', 'ext1:invalid:refused', 'ext2:valid:accepted', 'ext2:invalid:refused', 'pubfile:valid:accepted', 'pubfile:invalid:refused',
                      'rule:mandatory-missing:refused', 'rule:repeated:refused', 'rule:exclusive-alternatives-combined:refused', 'rule:at-least-one-group-empty:refused',
                      'rule:not-first:refused', 'rule:not-last:refused', 'rule:out-of-order:refused', 'rule:unknown-critical:refused',
                      'rule:integer-leading-zero:refused', 'rule:integer-over-64-bits:refused', 'rule:string-not-terminated:refused', 'rule:string-embedded-nul:refused',
                      'rule:utf8-lone-continuation:refused', 'rule:utf8-missing-continuation:refused', 'rule:utf8-invalid-lead:refused',
                      'rule:imprint-unknown-algorithm:refused', 'rule:imprint-length:refused', 'rule:legacy-id-*:refused',
                      'nc-ignored:sig:plain', 'nc-ignored:sig:in-hashed-content', 'nc-preserved', 'nc-verdict-unchanged', 'nc-fields-equal:sig', 'nc-fields-equal:aggr2', 'nc-fields-equal:ext2'],
    assumptions=['the reference schema table encodes the KSI format', 'OpenSSL primitives are correct'],
    deadline=dict(quick=600, thorough=2400),
)
