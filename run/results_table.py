#!/usr/bin/env python3
"""results_table.py <log of a thorough sweep> - prints the measured-results table of DESIGN.md section 9.

The quick column is read from evidence/CNN.json (written by the last quick run of each check), the thorough column
from the summary lines ("CNN thorough: cases=... wall=...s") that run/check.py printed during the sweep."""
import sys, os, re, json

VERIF = os.path.dirname(os.path.dirname(os.path.abspath(__file__)))


def fmt(n):
    n = int(n)
    if n >= 10**9:
        return '%.2f·10⁹' % (n / 1e9)
    if n >= 10**6:
        return '%.1f·10⁶' % (n / 1e6)
    if n >= 10**4:
        return '%.0f·10³' % (n / 1e3)
    return str(n)


def main():
    tho = {}
    for path in sys.argv[1:]:
        for line in open(path, errors='replace'):
            m = re.match(r'(C\d\d) thorough: (.*)', line)
            if m:
                tho[m.group(1)] = dict(kv.split('=', 1) for kv in m.group(2).split())
    print('| id | quick: cases / implementation calls / states / wall | thorough: cases / implementation calls / wall | violations (known) | exhaustive |')
    print('|---|---|---|---|---|')
    for i in range(1, 21):
        pid = 'C%02d' % i
        q = json.load(open(os.path.join(VERIF, 'evidence', pid + '.json')))
        c = q['coverage']
        calls = c.get('counters', {}).get('impl_calls', c.get('evaluations', 0))
        st = c.get('counters', {}).get('states') or 0
        qs = '%s / %s / %s / %.0f s' % (fmt(c.get('cases_executed', 0)), fmt(calls), fmt(st) if st else '-', q.get('wall_s', 0)) if q.get('tier') == 'quick' else '(last run was not quick)'
        t = tho.get(pid)
        ts = '%s / %s / %.0f s' % (fmt(t['cases']), fmt(t['impl_calls']), float(t['wall'].rstrip('s'))) if t else 'not in this sweep'
        viol = '%s (%s)' % (t['violations'], t['known']) if t else '-'
        print('| %s | %s | %s | %s | %s |' % (pid, qs, ts, viol, t['exhaustive'] if t else '-'))


if __name__ == '__main__':
    main()
