"""C19 registry entry."""
PID = 'C19'
SPEC = dict(
    driver='c19_allocfault',
    extra=['ref/ref.c', 'ref/ref_sig.c', 'ref/ref_pdu.c', 'ref/ref_pki.c', 'simnet.c'],
    level='fault_enumeration',
    rule='Catalogue of 79 operations over all modules (context create / configure; KSI_Signature_parse and parseWithPolicy(EMPTY) of 6 signature forms; '
         'KSI_SignatureVerifier_verify under the internal, calendar, key, publications-file, user-publication and general policy with a matching anchor, '
         'KSI_verifySignature / KSI_verifyDataHash with the context\'s own anchors, KSI_Signature_verifyWithPolicy helper; serialize, clone, identity, getters; aggregation / extension PDU parse + HMAC check, '
         'aggregation response -> signature; sign / extend request construction; blocking signing over TCP and HTTP (PDU v2 and v1, with level, with debug logging switched on), aggregator configuration request; extendTo / extend with record / head / '
         'KSI_extendSignature over TCP and HTTP (PDU v2 and v1); tree builder; signature builder (prepend local chain, re-close); block signer with and without masking; '
         'async signing and extending over TCP and HTTP with the service inside the operation or surviving it, three requests in flight; HA signing and HA extending service with two endpoints; publications file '
         'parse / verify / lookups / receive over HTTP; publication strings both ways; TLV parse + clone + serialize; typed list; data hasher; HMAC). '
         'For each operation a counting run measures N = SDK allocations made by the part under fault (all SDK allocations go through KSI_malloc / KSI_calloc in base.c, '
         'compiled onto the harness funnel); then for every i in 1..N the operation is re-run from a fresh state (new context and fixtures, simulated network and clock reset) '
         'with allocation i returning NULL; in the thorough tier also every pair i<j for operations with N <= 60. One case = one operation and a chunk of 16 consecutive fault '
         'indices (a crash is attributed to the chunk; the replay names the index), or one first index i with all j>i for pairs. A case is non-trivial when at least one faulted '
         'run reached the oracle. Every case first repeats the counting run and requires the same N, return code and result as the enumeration (determinism). '
         'Oracle per injection: sanitizers silent; the fault was injected; the call reports an error (a verification verdict "inconclusive/NA" counts as an error report) '
         'or reports success with exactly the fault-free result; a sentinel (parse + internal verification + serialization of a known good signature) on the same context gives '
         'the fault-free result; the same operation repeated without a fault on the same context and setup objects gives the fault-free return code and result; after freeing '
         'every returned object, the setup objects and the context no SDK allocation and no HTTP transfer handle is live. '
         'Further operations: second requests on primed objects, release under fault, a request carrying hash and configuration request, tree builder with retried steps, a signature whose calendar chain switches hash algorithms. '
         'A failed KSI_Signature_getPublicationInfo must leave all its outputs unset.'
         ' Operation builder-append-chain-leaf-level-1: a tree builder chain of leaves at level 1 appended and closed at root level 1 (the corrected chain is not the first element of the signature).',
    bounds=dict(quick='90 operations; every single fault index where N <= 800, every ceil(N/800)-th index beyond (stride 3 for three async requests and the block signer); no pairs',
                thorough='90 operations; every single fault index 1..N (largest N about 2400, limit 5000: no operation is strided); all pairs i<j for the operations with N <= 60'),
    technique='exhaustive allocation-fault enumeration (single faults, and fault pairs for small operations) on the real compiled code under ASan/UBSan with a counting allocator funnel and live-block accounting',
    level_text='Every allocation index of every catalogue operation is failed in turn on the real code, from an identical fresh state, under ASan + restricted UBSan with exact '
               'accounting of live SDK blocks; return code, result equality, leak freedom, context usability and repeatability are checked after every injection. This is exhaustive '
               'over the stated fault space (operation x allocation index) and is the appropriate level for a property that quantifies over crash points of hand-written cleanup code; '
               'it says nothing about operations or inputs outside the catalogue.',
    level_note='Trusted: the allocation funnel (only base.c allocates for the SDK; verified by grep: no other malloc/calloc/realloc/strdup in src/ksi), the simulated network / clock / libcurl, '
               'the reference signature / PDU / PKI builders that produce the fixtures, ASan/UBSan. OpenSSL\'s own allocations are never failed. A crash hides the remaining indices of '
               'its chunk of 16 until the defect is repaired. Verification verdict NA (inconclusive) under a fault is accepted as an error report.',
    require_outcomes=['fault:error-returned', 'fault:success-inessential', 'error-code:out-of-memory',
                      'op:ctx-new-free:error-returned', 'op:verify-key:error-returned', 'op:sign-tcp:error-returned', 'op:sign-http:error-returned',
                      'op:async-sign-tcp:error-returned', 'op:ha-sign-2-endpoints:error-returned', 'op:block-signer:error-returned', 'op:tree-builder:error-returned',
                      'op:pubfile-parse:error-returned', 'op:list-typed:error-returned', 'op:extend-nearest-ctx:error-returned'],
    assumptions=['the failure of one allocation (or of two, for small operations) is the fault model; a failing allocation returns NULL and later allocations succeed again',
                 'the catalogue inputs are well-formed: error paths taken for malformed inputs are not combined with allocation faults'],
    deadline=dict(quick=900, thorough=2400),
)
