"""C19 registry entry."""
PID = 'C19'
SPEC = dict(
    driver='c19_allocfault',
    extra=['ref/ref.c', 'ref/ref_sig.c', 'ref/ref_pdu.c', 'ref/ref_pki.c', 'simnet.c'],
    level='fault_enumeration',
    rule='placeholder',
    bounds=dict(quick='placeholder', thorough='placeholder'),
    technique='exhaustive allocation-fault enumeration',
    level_text='placeholder',
    level_note='placeholder',
    require_outcomes=['fault:error-returned', 'fault:success-inessential'],
    assumptions=[],
    deadline=dict(quick=900, thorough=2400),
)
