"""C20 registry entry."""
PID = 'C20'
SPEC = dict(
    driver='c20_uri',
    rule='Full product enumeration of service URIs. A case is one URI (scheme spelling x user-info x host form x port x path x query x '
         'fragment) given to one service (blocking aggregator / blocking extender / asynchronous signing / asynchronous extending) without or '
         'with explicit loginId/key, followed by one request so that the PDU reaches the transport; plus one KSI_UriSplitBasic case per URI. '
         'Distinct = distinct index tuple (the case name); non-trivial = the outcome observed at the transport seam (URL given to the HTTP '
         'library, host/port given to getaddrinfo/connect, file opened, login id and MAC key of the emitted PDU, refusal) was compared with the '
         'oracle derived from the property statement. '
         'Further parts: after-refused (request after a refused re-pointing call goes to the endpoint accepted before), file-switch (file endpoint re-pointed after serving), long-query (6000-character query). '
         'Part after-bad-first: the asynchronous service is first offered one of 6 URIs it refuses, then the URI under test. '
         'Cases empty-credentials: a service with credentials re-pointed by a URI whose embedded user name or key is empty must not send the former credentials to the new host.'
         ' Part odd-query: queries, a path and a fragment made of the other characters RFC 3986 allows there (a query beginning with \'?\', \'/\', \':\', \'@\', \'~\' and the sub-delimiters).',
    bounds=dict(
        quick='factored product: every letter-case variant of ksi, ksi+http, ksi+https, ksi+tcp, file, http, https and the unknown schemes ftp, ksix, '
              'ksi+udp (523 spellings) x one representative of the rest (user-info u:k, host name, port 80, path /a/b.c, query, fragment); plus the '
              'canonical spelling of the 10 schemes x the full product user-info {none, u:k, long user + key with unreserved punctuation} x host '
              '{name, IPv4, bracketed IPv6} x port {absent,1,80,65535} x path {absent,/,/a/b.c} x query {absent,present} x fragment {absent,present}; '
              'each x explicit credentials {absent,present} x 4 services',
        thorough='the full product: 523 scheme spellings x 3 user-info x 3 hosts x 4 ports x 3 paths x 2 queries x 2 fragments (225936 URIs) x explicit '
                 'credentials {absent,present} x 4 services (1807488 service cases) + 225936 KSI_UriSplitBasic cases'),
    technique='exhaustive enumeration of a finite product of URI components on the compiled code, observed at the transport seam (fake libcurl, '
              'simulated resolver/sockets, interposed fopen), oracle written from the property statement; MAC key decided with a reference HMAC',
    level_text='Every element of the stated finite product is executed on the real libksi object code (ASan/UBSan) with libcurl, the socket layer and '
               'fopen replaced by recording doubles, and what the client hands to the transport is compared with what the statement prescribes; nothing '
               'is sampled. This fits the property because it is a universally quantified statement over URI compositions (dispatch is a finite map of '
               'scheme spellings; confinement of credentials is a negative statement over all compositions of parts), and the code paths depend only on '
               'the component classes enumerated here.',
    level_note='Trusted: the recording doubles in harness/simnet.c and the fopen interposer of the driver, the reference TLV reader and RFC 2104 HMAC in '
               'harness/ref/ref.c over OpenSSL digests, gcc sanitizers. Component values outside the enumerated alphabets (other hosts, paths with '
               'escapes, ports other than 1/80/65535) and the high-availability service are not covered.',
    require_outcomes=['transport:http:blocking:ksi-http', 'transport:http:async:ksi-http', 'transport:tcp:blocking:ksi-tcp', 'transport:tcp:async:ksi-tcp',
                      'transport:file:blocking:file', 'transport:http:blocking:other', 'refused:async:file', 'refused:async:other',
                      'cred:embedded', 'cred:explicit', 'split:ok'],
    assumptions=['the fake libcurl / simulated socket layer hand the driver exactly the arguments the client passed (URL string, node/service strings, written bytes)',
                 'OpenSSL digest primitives are correct (shared by the library and the reference HMAC)',
                 'PDU version 2 (library default) is in use: request = TLV 0x220/0x320 {01 header {01 login id}, payload, 1f MAC over all preceding PDU bytes incl. the MAC TLV header and algorithm byte}'],
    deadline=dict(quick=600, thorough=2400),
)
