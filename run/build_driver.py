#!/usr/bin/env python3
"""build_driver.py CNN [variant] - builds libksi (from VERIF_REPO or /repo) and the drivers of one property, prints the executables."""
import sys, os
sys.path.insert(0, os.path.dirname(os.path.abspath(__file__)))
import check, registry

def main():
    pid = sys.argv[1]
    spec = registry.PROPS[pid]
    repo = os.environ.get('VERIF_REPO', '/repo')
    drivers = spec.get('drivers') or [dict(driver=spec['driver'], **{k: spec[k] for k in ('extra', 'omit_objs', 'variant') if k in spec})]
    log = open(os.path.join(check.VERIF, 'build', 'log', 'build_driver.log'), 'a')
    for d in drivers:
        exe, err = check.build(repo, d.get('variant', 'asan'), d['driver'], d, log)
        print(exe if not err else 'ERROR: ' + str(err))

if __name__ == '__main__':
    main()
