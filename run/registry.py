"""Per-property registry: every run/reg_*.py defines PID and SPEC (driver, bounds text, enumeration rule,
manifest texts). Collected here."""
import glob, os, importlib.util

PROPS = {}
NOT_APPLICABLE = {}
HOOK_COMMITS = []

_here = os.path.dirname(os.path.abspath(__file__))
for _f in sorted(glob.glob(os.path.join(_here, 'reg_*.py'))):
    _spec = importlib.util.spec_from_file_location(os.path.basename(_f)[:-3], _f)
    _m = importlib.util.module_from_spec(_spec)
    _spec.loader.exec_module(_m)
    PROPS[_m.PID] = _m.SPEC
PROPS = dict(sorted(PROPS.items()))
