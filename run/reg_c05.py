"""C05 registry entry."""
PID = 'C05'
SPEC = dict(
    driver='c05_policy',
    rule='Bounded-exhaustive enumeration of programs x inputs for the policy interpreter. A case is one rule tree (the top-level rule '
         'array of a policy; elements BASIC / AND(list) / OR(list), lists non-empty), named by its canonical text, e.g. "t:B,A(B,O(B,B))", '
         'or one fallback chain of such trees ("f:<tree>|<tree>|..."). Every basic rule is a distinct instrumented verifier function; the '
         'outcome of a rule (OK, inconclusive with GEN-2, inconclusive without error code, FAIL with a rule-specific error code, internal '
         'error with a rule-specific status; in the "u:" cases also "returns KSI_OK without writing a result") is a choice point taken when '
         'the rule is invoked, and a depth-first explorer runs the compiled library once for every choice sequence that is reachable '
         'according to the reference, so inside a case ALL reachable outcome assignments are executed (impl_calls = executions of '
         'KSI_SignatureVerifier_verify). Every execution is compared with an independent reference interpreter: sequence of invoked rules '
         '(an invocation after the stopping point or a missing invocation is a violation), return code, absence of a result on internal '
         'error, finalResult (result/error code and identity of the last rule and last policy evaluated), policyResults length and '
         'entries. Distinct = distinct tree/chain text; non-trivial = every case (each reaches oracle comparisons). '
         'Further: internal errors include the statuses 5, 1, 0xff and -3; refused KSI_Policy_setFallback calls leave the chain as it is.',
    bounds=dict(
        quick='all rule trees with <= 5 basic rules and nesting depth <= 2 (86627 trees) x all reachable assignments of 5 outcomes; '
              'all trees with <= 3 rules, depth <= 2 (811) x 6 outcomes (incl. result left unwritten); fallback chains of length 0..2 '
              '(1..3 policies) over all trees with <= 2 rules and depth <= 1 per policy (14+14^2+14^3 chains) and of length 3 over all '
              'trees with 1 rule and depth <= 1 (3^4 chains) x all reachable assignments of 5 outcomes, run with a parsed sample '
              'signature in the verification context',
        thorough='all rule trees with <= 5 rules and nesting depth <= 3 (5835763 trees), with 6 and 7 rules and depth <= 2 (808395 + 8352217 '
                 'trees) x all reachable assignments of 5 outcomes; trees with <= 4 rules depth <= 2 and 5 rules depth <= 1 x 6 outcomes; '
                 'fallback chains of length 0..2 over all trees with <= 2 rules and depth <= 2 per policy (78+78^2+78^3 chains) and of '
                 'length 3 over trees with <= 2 rules and depth <= 1 (14^4 chains) x all reachable assignments of 5 outcomes'),
    technique='bounded-exhaustive enumeration of rule trees and (lazily, by depth-first search over choice points) of all reachable rule '
              'outcome assignments on the compiled code, compared with an independent reference interpreter',
    level_text='The evaluator is an interpreter, so the property quantifies over programs (rule trees) and inputs (rule outcomes). Every '
               'tree up to the stated leaf/depth bound and, for each tree, every reachable outcome assignment is executed on the real '
               'libksi object code (ASan/UBSan) through the public API (KSI_Policy_create, KSI_Policy_setFallback, '
               'KSI_SignatureVerifier_verify) and compared with a 25-line reference interpreter written from the property statement and '
               'the policy.h documentation of KSI_RULE_TYPE_*; nothing is sampled. The break conditions of the interpreter depend only on '
               '(element type, result class, position in the list, nesting), all combinations of which occur many times within the bound '
               '(see outcome classes), so a complete bounded enumeration decides the property within the bound; the statement\'s '
               '"random larger trees" are not run (no sampling in this harness).',
    level_note='Trusted: the reference interpreter and the tree enumerator in harness/c05_policy.c, gcc sanitizers. Not covered: trees '
               'beyond the bounds, rule functions that modify the policy or the context while being evaluated, allocation failures '
               'inside the evaluator, the predefined policies (their rules need real signatures and services).',
    require_outcomes=['final:OK', 'final:NA', 'final:FAIL', 'final:error',
                      'stop:or-ok-skips-rest', 'or:na-passes-on', 'or:na-in-last-position', 'stop:na-skips-rest',
                      'stop:fail-skips-rest', 'stop:error-skips-rest', 'shape:and-nested-in-or',
                      'fallback-taken:after-FAIL', 'fallback-taken:after-NA', 'fallback-not-taken:after-OK',
                      'fallback-not-taken:after-error', 'fallback:chain-exhausted', 'part:u:*', 'part:f:policies=4'],
    assumptions=['"inconclusive" comprises a rule result NA with error code GEN-2 and NA with no error code; both must be handled alike',
                 'an internal error is a rule function returning a status other than KSI_OK, whatever it left in the result structure '
                 '(even-numbered instrumented rules leave OK behind, odd ones leave NA/GEN-2)',
                 '"u:" cases only: a rule that returns KSI_OK without writing a result counts as inconclusive (default documented for '
                 'KSI_RuleVerificationResult_init); only the result code NA, not the error code, is asserted for it',
                 'finalResult.ruleName / policyName (documented as last performed rule / policy name) identify whose result is reported',
                 'rule functions are pure with respect to the policy structure (they only record the invocation and write their result)'],
)
