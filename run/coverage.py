#!/usr/bin/env python3
"""coverage.py [ID ...] [--tier quick] - which library code do the checks' drivers execute?

Not a check: a development aid used to look for blind spots. Builds the unit under test with gcc --coverage
(build/cov), builds each property's driver(s) against it, runs every shard in-process (--nofork) and writes
build/cov/report/<ID>.txt: per source file the executed/total lines and the functions never entered.
With several IDs a combined report (ALL.txt) is written too."""
import sys, os, subprocess, json, glob, shutil, argparse, re, collections

VERIF = os.path.dirname(os.path.dirname(os.path.abspath(__file__)))
sys.path.insert(0, os.path.join(VERIF, 'run'))
from registry import PROPS  # noqa: E402

OUT = os.path.join(VERIF, 'build', 'cov')


def sh(cmd, **kw):
    return subprocess.run(cmd, shell=isinstance(cmd, str), stdout=subprocess.PIPE, stderr=subprocess.STDOUT, text=True, **kw)


def build_driver(d):
    drv = d['driver']
    exe = os.path.join(OUT, 'bin', drv)
    os.makedirs(os.path.join(OUT, 'bin'), exist_ok=True)
    os.makedirs(os.path.join(OUT, 'drvobj'), exist_ok=True)
    srcs = [os.path.join(VERIF, 'harness', 'vf.c')] + [os.path.join(VERIF, 'harness', s) for s in d.get('extra', ['ref/ref.c', 'simnet.c'])]
    inc = '-DHAVE_CONFIG_H -DLIBKSI_VERIF -DCURL_DISABLE_TYPECHECK -w -I/repo/src -I/repo/src/ksi -I%s/harness/fallback -I%s/harness/fallback/ksi -I%s/harness %s' % (VERIF, VERIF, VERIF, d.get('cflags', ''))
    # the driver itself is instrumented as well: some drivers re-compile a library file by including it
    dobj = os.path.join(OUT, 'drvobj', drv + '.o')
    r = sh('gcc -O0 -g --coverage %s -c %s -o %s' % (inc, os.path.join(VERIF, 'harness', drv + '.c'), dobj), cwd=VERIF)
    if r.returncode:
        sys.exit('driver compile failed: ' + r.stdout[-3000:])
    objs = [os.path.join(OUT, 'obj', o) for o in sorted(os.listdir(os.path.join(OUT, 'obj'))) if o.endswith('.o') and o not in d.get('omit_objs', [])]
    r = sh('gcc -O0 -g --coverage %s %s %s %s -lcrypto -o %s' % (inc, dobj, ' '.join(srcs), ' '.join(objs), exe), cwd=VERIF)
    if r.returncode:
        sys.exit('driver link failed: ' + r.stdout[-3000:])
    return exe


def collect():
    """returns {file: {'lines': {n: count}, 'funcs': {name: count}}} from all .gcda under build/cov"""
    res = {}
    for base in (os.path.join(OUT, 'obj'), os.path.join(OUT, 'drvobj')):
        gcdas = glob.glob(os.path.join(base, '*.gcda'))
        if not gcdas:
            continue
        r = sh(['gcov', '--json-format', '--stdout'] + gcdas, cwd=base)
        for line in r.stdout.splitlines():
            line = line.strip()
            if not line.startswith('{'):
                continue
            try:
                j = json.loads(line)
            except ValueError:
                continue
            for f in j.get('files', []):
                name = f['file']
                if '/repo/src/ksi/' not in os.path.abspath(os.path.join(base, name)) and not name.startswith('ksi/') and '/src/ksi/' not in name:
                    continue
                key = os.path.basename(name)
                e = res.setdefault(key, dict(lines={}, funcs={}))
                for ln in f.get('lines', []):
                    e['lines'][ln['line_number']] = e['lines'].get(ln['line_number'], 0) + ln['count']
                for fn in f.get('functions', []):
                    e['funcs'][fn['name']] = e['funcs'].get(fn['name'], 0) + fn['execution_count']
    return res


def report(res, path):
    with open(path, 'w') as o:
        tot = ex = 0
        for f in sorted(res):
            L = res[f]['lines']
            n, c = len(L), sum(1 for v in L.values() if v)
            tot += n; ex += c
            dead = sorted(k for k, v in res[f]['funcs'].items() if not v)
            o.write('%-28s %5d/%5d lines  %3d/%3d functions\n' % (f, c, n, len(res[f]['funcs']) - len(dead), len(res[f]['funcs'])))
            if dead:
                o.write('    never entered: %s\n' % ' '.join(dead))
        o.write('TOTAL %d/%d lines\n' % (ex, tot))


def uncovered_ranges(res, f):
    L = res[f]['lines']
    out, cur = [], None
    for n in sorted(L):
        if L[n] == 0:
            if cur and n - cur[1] <= 2:
                cur[1] = n
            else:
                cur = [n, n]; out.append(cur)
    return out


def main():
    ap = argparse.ArgumentParser()
    ap.add_argument('ids', nargs='*')
    ap.add_argument('--tier', default='quick')
    ap.add_argument('--keep', action='store_true', help='accumulate onto existing counters')
    a = ap.parse_args()
    ids = a.ids or sorted(PROPS)
    r = sh(['make', '-s', '-f', os.path.join(VERIF, 'mk', 'build.mk'), '-j16', 'REPO=/repo', 'VARIANT=cov', 'OUT=' + OUT], cwd=VERIF)
    if r.returncode:
        sys.exit(r.stdout[-3000:])
    os.makedirs(os.path.join(OUT, 'report'), exist_ok=True)
    allres = {}
    for pid in ids:
        spec = PROPS[pid]
        if not a.keep:
            for g in glob.glob(os.path.join(OUT, 'obj', '*.gcda')) + glob.glob(os.path.join(OUT, 'drvobj', '*.gcda')):
                os.unlink(g)
        for d in (spec['drivers'] if 'drivers' in spec else [spec]):
            exe = build_driver(d)
            env = dict(os.environ, VERIF_DIR=VERIF, VERIF_REPO='/repo')
            env.update(spec.get('env', {}))
            base = [exe, '--tier', a.tier, '--seed', '0', '--case-limit', '3000'] + d.get('args', []) + ['--nofork']
            ns = 16
            procs = [subprocess.Popen(base + ['--shard', str(s), '--nshards', str(ns), '--deadline', '3000'], stdout=subprocess.DEVNULL, stderr=subprocess.DEVNULL, env=env, cwd=VERIF) for s in range(ns)]
            rcs = [p.wait() for p in procs]
            print(pid, d['driver'], 'rcs', sorted(set(rcs)), flush=True)
        res = collect()
        report(res, os.path.join(OUT, 'report', pid + '.txt'))
        json.dump({f: dict(funcs=res[f]['funcs'], unc=uncovered_ranges(res, f)) for f in res}, open(os.path.join(OUT, 'report', pid + '.json'), 'w'))
        for f in res:
            e = allres.setdefault(f, dict(lines={}, funcs={}))
            for k, v in res[f]['lines'].items():
                e['lines'][k] = e['lines'].get(k, 0) + v
            for k, v in res[f]['funcs'].items():
                e['funcs'][k] = e['funcs'].get(k, 0) + v
    if len(ids) > 1:
        report(allres, os.path.join(OUT, 'report', 'ALL.txt'))
        json.dump({f: dict(funcs=allres[f]['funcs'], unc=uncovered_ranges(allres, f)) for f in allres}, open(os.path.join(OUT, 'report', 'ALL.json'), 'w'))


if __name__ == '__main__':
    main()
