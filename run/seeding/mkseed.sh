#!/bin/bash
# mkseed.sh <ID>: scratch worktree /tmp/seed_<ID> with PROPERTY.txt
id=$1
git -C /repo worktree remove --force /tmp/seed_$id 2>/dev/null
rm -rf /tmp/seed_$id
git -C /repo worktree add -q --detach /tmp/seed_$id HEAD
cp /repo/src/ksi/config.h /repo/src/ksi/version.h /tmp/seed_$id/src/ksi/
python3 - $id <<'PY'
import json,sys
pid=sys.argv[1]
for l in open('/verif/properties.jsonl'):
    d=json.loads(l)
    if d['id']==pid:
        t="Property %s: %s\n\nStatement:\n%s\n\nQuantified over: %s\n\nAnchors:\n%s\n"%(d['id'],d['title'],d['statement'],d['quantifier']['text'],json.dumps(d['anchors'],indent=1))
        open('/tmp/seed_%s/PROPERTY.txt'%pid,'w').write(t)
PY
ls /tmp/seed_$id/PROPERTY.txt
