"""C12 registry entry."""
PID = 'C12'
SPEC = dict(
    driver='c12_parsers',
    extra=['ref/ref.c', 'ref/ref_sig.c', 'ref/ref_pdu.c', 'simnet.c'],
    rule='Bounded-exhaustive enumeration of inputs, nothing sampled, no coverage feedback. A case is a named block of the finite input space that is run '
         'on one fresh KSI context: (i) short:<entry point>:full:<b0> = every byte string of the bound that starts with byte b0, short:<entry point>:struct:<a0a1> = '
         'every string over the 12-byte structural alphabet {00,01,02,04,05,07,08,1f,80,88,ff,03} that starts with a0 a1, short:<entry point>:empty = the empty input; '
         '(ii) m:<seed>:<family>:<chunk>:<log level> = one chunk of one mutation family of one seed: id (the seed itself), trunc (every proper prefix), byte (every '
         'offset x {=00,=ff,^01,^80,+1,-1}, duplicates and no-ops dropped), len (every TLV length field found by walking the TLV structure x {0, own-1, own+1, rest of '
         'buffer, 0xffff}), zend (one element, at any depth, moved to the very end of the buffer with length 0, all ancestors re-encoded), sweep (reference-built seeds up to 2000 bytes: every other byte value at every offset; '
         'quick tier: one signature, header bytes + first four payload bytes of every leaf + every byte of leaves <= 16 bytes), legacy (every 29-octet legacy identifier rewritten with string length 0..31 x 3 padding variants); seeds are the files of '
         'test/resource/tlv (and v2/) up to 70000 bytes and reference-built signatures and PDUs (harness/ref); each mutant goes to the entry points of the seed type '
         '(signature: both signature parsers, KSI_TLV_parseBlob, KSI_TlvElement_parse plain and with expansion, KSI_FTLV_memRead/memReadN; PDU: the PDU parser under '
         'version option 1 and 2; publications file: KSI_PublicationsFile_parse; other: the raw TLV readers); (iii) text:<entry point>:... = every string of length 1..3 '
         'over 7-bit ASCII + {80,ff} with a given first character, each known name / publication string with every single-character edit (delete, 15 substitutes, 15 inserts), '
         'a product list of URIs. Every input is copied into an exactly sized heap block. After a successful parse the follow-ups run on the object: verification under the 7 '
         'predefined policies with a bare and with a rich verification context (user publications file, user publication, document hash, extending allowed; all network '
         'endpoints unreachable in the simulated network), serialize, clone, identity extraction, getters, every toString with buffers of 1/16/1500 bytes, PDU HMAC '
         'verification, signature construction from an aggregation response, publications file lookups, serialization and PKI verification. Log level L0 = none, '
         'L1 = debug with a discarding logger callback (and unreachable extender / publications URL configured). Oracle per case: no sanitizer report, every call returns, '
         'KSI_OK comes with an object, SDK live-allocation count returns to its value before KSI_CTX_new after KSI_CTX_free (entry points without context: exact per call), '
         'a sentinel signature parses / verifies / re-serializes identically on the same context before and after the batch; a deviation is bisected to the first single '
         'input that reproduces it on a fresh context. Distinct = distinct case name; non-trivial = at least one library call was executed under the oracle. '
         'Further seeds: a publications file with a large unknown record, request PDUs with integers beyond 32 bits; after every failed call the error trace is rendered through KSI_ERR_toString, the logger (two levels) and KSI_ERR_statusDump. '
         'A publications file of more than 65535 bytes (records repeated) is offered as it is to the entry point and its follow-ups (look-ups, refused serialization, verification, release). '
         'Seed: a publications file with a SHA2-512 publication record (longest rendering). '
         'Seeds: a publications file record with three long references, a publication record with an empty reference string; rendering buffers of 1, 16, 400 and 1500 bytes. '
         'Follow-ups: metadata getters through one uncleared variable; a publication record copied, the copy changed and released, the record rendered again; record searches by time and by record. '
         'Metadata fields of every link read through one receiving variable that is not cleared between the getters; seed with an empty publication reference string. '
         'A publication record of the file is copied, the copy released and two hashes created: the record renders as before.',
    bounds=dict(
        quick='(i) 11 binary entry points x {all strings of length <= 2 over all 256 bytes, all strings of length <= 5 over the structural alphabet} x {no log, debug log}; '
              '(ii) 13 seeds (2 reference signatures, the 10-byte signature whose input hash is a zero-length imprint at the end, 6 reference PDUs v1/v2 incl. error and configuration, 2 sample signatures, 1 nested TLV sample, 1 publications file) x '
              'all five families x both log levels; (iii) all strings of length <= 3 over 129 characters through KSI_PublicationData_fromBase32 (both log levels), '
              'KSI_UriSplitBasic, KSI_getHashAlgorithmByName; 6 publication strings and 24 algorithm names with all single-character edits; 104,109 URIs (13 scheme x 7 userinfo x 13 host x 11 port x 8 path forms, 5 URIs with a 5000 character component); '
              'KSI_Integer_toDateString for 17 times x buffer sizes 1..40.',
        thorough='(i) without log: all strings of length <= 3 over all 256 bytes and of length <= 7 over the structural alphabet (debug log: the quick bounds); '
                 '(ii) every seed: all .ksig/.tlv/.bin/.gtts files under test/resource/tlv incl. v2/ (<= 70000 bytes) and 33 reference-built objects, all five families without log; '
                 'with debug log every family of the 13 quick seeds and the id/trunc/len/zend families of all other seeds; seeds larger than 8192 bytes (6 publications files, one 64 KB string element): '
                 'per-offset family = every TLV header offset x 6 operators and every payload offset x {^01}; (iii) as quick.'),
    technique='bounded-exhaustive input enumeration and structure-aware exhaustive single mutation on the compiled code under ASan/UBSan with exact-size input blocks, allocation accounting and a context sentinel',
    level_text='Every input of the stated finite families is executed on the real libksi object code through every listed entry point and, on success, through the follow-up operations, at two log levels. '
               'Memory safety, totality and leak freedom are properties of each single execution, observed directly by the sanitizers, the allocation funnel and the sentinel; '
               'within the bound the enumeration is complete (no sampling), so a violation inside the bound cannot be missed except for what the sanitizers cannot see.',
    level_note='Trusted: gcc ASan + UBSan (bounds,null,return,unreachable,vla-bound), the allocation funnel (counts SDK blocks only, not OpenSSL internals), the simulated network. Not covered: inputs that need '
               'two or more simultaneous mutations of a seed, strings longer than the bounds that are not mutants of a seed; over-reads that stay inside the exactly sized block; uninitialised reads (no MSan).',
    require_outcomes=['sigparse-empty:ok', 'sigparse-empty:err', 'sigparse:ok', 'sigparse:err', 'aggrpdu-v1:ok', 'aggrpdu-v1:err', 'aggrpdu-v2:ok', 'aggrpdu-v2:err',
                      'extpdu-v1:ok', 'extpdu-v1:err', 'extpdu-v2:ok', 'extpdu-v2:err', 'pubfile:ok', 'pubfile:err', 'tlv:ok', 'tlv:err', 'ftlv:ok', 'ftlv:err',
                      'tlvelem:ok', 'tlvelem:err', 'tlvelem-expand:ok', 'tlvelem-expand:err', 'pubstring:ok', 'pubstring:err', 'uri:ok', 'uri:err',
                      'hashname:ok', 'hashname:err', 'verify:OK', 'verify:NA-or-FAIL', 'pduverify:ok', 'debuglog:used', 'selfcheck:refseed:accepted'],
    assumptions=['sanitizer instrumentation observes every out-of-bounds access, use after free and double free that leaves the exactly sized heap block or a live SDK object',
                 'all SDK allocations go through KSI_malloc/KSI_calloc/KSI_free (allocation funnel)',
                 'the predefined policies are the 7 exported KSI_VERIFICATION_POLICY_* objects'],
    deadline=dict(quick=300, thorough=4000),
    # check.py's sanitizer options with a smaller quarantine (16 shards x exactly sized 64 KB blocks otherwise hold 256 MB each)
    env=dict(ASAN_OPTIONS='detect_leaks=0:abort_on_error=0:allocator_may_return_null=1:handle_abort=1:symbolize=1:detect_stack_use_after_return=0:malloc_context_size=12:quarantine_size_mb=64'),
)
