#!/usr/bin/env python3
"""Regenerates MANIFEST.json from run/registry.py (keeps the manifest valid and in sync)."""
import json, os, sys
V = os.path.dirname(os.path.dirname(os.path.abspath(__file__)))
sys.path.insert(0, os.path.join(V, 'run'))
from registry import PROPS, NOT_APPLICABLE, HOOK_COMMITS
ids = [json.loads(l)['id'] for l in open(os.path.join(V, 'properties.jsonl'))]
checks = []
for pid in ids:
    if pid not in PROPS:
        continue
    s = PROPS[pid]
    checks.append(dict(
        property_id=pid,
        quick_cmd='python3 run/check.py %s --tier quick' % pid,
        thorough_cmd='python3 run/check.py %s --tier thorough' % pid,
        evidence_file='/verif/evidence/%s.json' % pid,
        replay_cmd_template='run/replay.sh {path}',
        engine='vf-explorer',
        level_claimed=dict(category=s.get('level', 'model_checking'), text=s['level_text'], design_ref='DESIGN.md section 3, %s' % pid),
        level_note=s['level_note'],
        technique=s['technique'],
    ))
na = [dict(property_id=p, reason=r) for p, r in NOT_APPLICABLE.items() if p not in PROPS]
for pid in ids:
    if pid not in PROPS and pid not in NOT_APPLICABLE:
        na.append(dict(property_id=pid, reason='check not built yet (construction in progress); no claim is made for this property'))
m = dict(
    version=1,
    setup_cmd='python3 run/setup.py',
    hooks=dict(guard='LIBKSI_VERIF', enable='checks compile /repo/src/ksi/*.c with -DLIBKSI_VERIF (mk/build.mk); no hook is currently needed: all seams are link-time (see DESIGN.md 2.1)',
               baseline_off_cmd='make -C /repo include-test', source_commits=HOOK_COMMITS, add_only=True),
    engines=[dict(name='vf-explorer', path='harness/vf.c, harness/simnet.c, harness/ref/, run/check.py',
                  serves_properties=[c['property_id'] for c in checks],
                  kind_free_text='bounded-exhaustive enumeration / deviation-bounded DFS / explicit-state BFS with replay, executed directly on the compiled libksi objects (ASan+UBSan) with every environment answer (sockets, clock, libcurl, allocator) owned by the harness; oracles are an independent reference model of KSI')],
    checks=checks,
    notes='All checks rebuild libksi from /repo working tree (mk/build.mk) on every invocation. VERIF_REPO overrides the repository root (used only by the seeded-change audit).',
    not_applicable=na,
)
json.dump(m, open(os.path.join(V, 'MANIFEST.json'), 'w'), indent=1)
print('MANIFEST.json: %d checks, %d not_applicable' % (len(checks), len(na)))
