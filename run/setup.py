#!/usr/bin/env python3
"""setup: build the unit under test and every driver once (offline, from files on disk)."""
import os, sys
V = os.path.dirname(os.path.dirname(os.path.abspath(__file__)))
sys.path.insert(0, os.path.join(V, 'run'))
import check
from registry import PROPS
rc = 0
for pid, spec in PROPS.items():
    for d in (spec['drivers'] if 'drivers' in spec else [spec]):
        exe, err = check.build(os.environ.get('VERIF_REPO', '/repo'), d.get('variant', 'asan'), d['driver'], d, sys.stderr)
        if err:
            print(err); rc = 1
        else:
            print('built', exe)
sys.exit(rc)
