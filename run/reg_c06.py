"""C06 registry entry."""
PID = 'C06'
SPEC = dict(
    driver='c06_hmac',
    extra=['ref/ref.c', 'ref/ref_sig.c', 'ref/ref_pdu.c', 'simnet.c'],
    rule='Two enumerations at the transport seam (simulated sockets / fake libcurl). '
         'Part A (requests): service {aggregation, extension, aggregator configuration, extender configuration} x PDU version {2,1} x HMAC algorithm '
         '{SHA-256, SHA-384, SHA-512, RIPEMD-160} x key length {1,2,31,32,33,63,64,65,127,128,129,1000,65535} x login id {1 char, 64 chars, UTF-8 2-byte} x client '
         '{blocking TCP, blocking HTTP, async TCP, async HTTP} x content (aggregation: 4 hash algorithms x level {0,1,255}; extension: without / with publication '
         'time). The bytes handed to the transport are re-parsed by the reference request parser: header present and first, login id as configured, MAC present and '
         'last, MAC algorithm = configured, MAC = reference HMAC over the authenticated range (v2: every byte before the digest; v1: header TLV + payload TLV), '
         'request content unchanged. One case = one (service, version, algorithm, key, login, client) with all contents; the same again with a request header callback '
         '(KSI_CTX_setRequestHeaderCallback) that adds an instance id and a message id: on the blocking clients the wire header must carry them and the MAC must cover them; and once more after the endpoint had first been configured '
         'with other credentials and used (the request must carry the new login id and a MAC under the new key; a plain asynchronous service refuses to be re-pointed). '
         'Part B (responses): the reference server answers the request really emitted with an authentic response (aggregation, extension, aggregator and '
         'extender configuration, and a v2 aggregation / extension response carrying an unrequested (pushed) configuration that reaches the caller through the '
         'KSI_OPT_*_CONF_RECEIVED_CALLBACK context option or KSI_ASYNC_OPT_PUSH_CONF_CALLBACK; PDU v2 and v1) and the driver applies one deviation: every single-bit flip, every truncation length, every splice point with a '
         'second authentic response under the same key, MAC under 5 other keys, MAC under each other algorithm (pinned / pinning removed after the request left / '
         'unpinned with a wrong key), other PDU version, header removed, MAC removed, MAC not last, header last, digest bit flipped, and for the 2-endpoint HA '
         'service: one endpoint bad, each endpoint answered under the other endpoint\'s key - through blocking TCP/HTTP (KSI_Signature_signAggregated, '
         'KSI_Signature_extendTo, KSI_receiveAggregatorConfig, KSI_receiveExtenderConfig), the asynchronous service (TCP/HTTP) and the high-availability service '
         '(1 and 2 endpoints, TCP/HTTP). Oracle per run: content delivered => the reference authenticates the bytes that were sent (header and MAC present, MAC = '
         'reference HMAC under the endpoint key and the configured algorithm over the received bytes, same PDU version) AND the delivered content (serialized '
         'signature / configuration values) is identical to the content of the authentic response; a timeout of the asynchronous request counts as refusal. '
         'Every case first runs the authentic exchange, which must deliver the content the reference put into the response. Flip / truncation / splice cases are '
         'chunks of 256 bit positions / 128 lengths. '
         'PDUs carrying an error payload next to the ordinary payload (bad MAC, no header and MAC, no MAC, authentic MAC; error payload after or in front). '
         'The other service (extender for aggregator cases and the reverse) is pinned to another MAC algorithm throughout.',
    bounds=dict(
        quick='Part A: all 13 key lengths x SHA-256 x blocking TCP x 3 login ids, plus all 4 algorithms x keys {1,64,65,65535} x 4 clients x 2 login ids; 5 of the 12 '
              'aggregation contents. Part B: authentic + all structural deviations for every (kind, version, client); every bit of every response kind (v2 and v1) '
              'through blocking TCP, async HTTP and the 2-endpoint HA service over TCP, and of the v2 aggregation response through all 8 clients; every truncation '
              'through 4 clients; every splice point through 3 clients (about 158 000 flipped, 19 000 truncated, 14 000 spliced responses)',
        thorough='Part A: full product (4992 cases, 12/2/1 contents each). Part B: every bit / truncation / splice point of every response kind (v2, v1) through all '
                 '8 clients; additionally every bit with the MAC under SHA-384, SHA-512 and RIPEMD-160 through blocking TCP and async HTTP; authentic responses for '
                 '4 algorithms x 5 key lengths (about 500 000 flipped responses)'),
    technique='exhaustive enumeration of request configurations and of single-bit / truncation / splice / structural response deviations at the transport seam on the real '
              'client code; independent reference HMAC, PDU parser and response authenticator as oracle',
    level_text='Every element of the stated finite space is executed on the compiled library: each request configuration is captured at the transport seam and its MAC '
               'recomputed by an independent HMAC over the byte range the statement defines; each authentic response and each of its single-bit flips, prefixes and '
               'splices (exhaustive per response) plus a fixed menu of key / algorithm / version / structure deviations is driven to completion through the blocking, '
               'asynchronous and high-availability clients, and delivery of content is allowed only when the reference authenticator accepts the bytes sent and the '
               'content equals the authentic content. Nothing is sampled.',
    level_note='Trusted: OpenSSL HMAC/digests behind ref_hmac, the reference PDU model (harness/ref/ref_pdu.c) and the response authenticator in the driver, the simulated '
               'transport. Bounded: one response per (kind, version) (one tree shape, fixed request content), single-bit flips only (no multi-bit combinations), keys up to '
               '65535 bytes on requests and up to 1000 bytes on responses. "Without pinning" is modelled by setting the context HMAC option to KSI_HASHALG_INVALID_VALUE '
               'after the request left (a request cannot be built without a configured algorithm); then a valid MAC under another supported algorithm may be delivered.',
    require_outcomes=['req:aggr:v2:alg1:ok', 'req:aggr:v1:alg1:ok', 'req:ext:v2:alg1:ok', 'req:ext:v1:alg1:ok', 'req:aconf:v2:alg1:ok', 'req:econf:v2:alg1:ok',
                      'req:econf:v1:*:nothing-sent', 'req:*:alg2:ok', 'req:*:alg4:ok', 'req:*:alg5:ok',
                      'resp:authentic:delivered', 'resp:authentic:pushed-config-delivered', 'req:*:hdrcb:ok', 'resp:authentic:alg2:delivered', 'resp:authentic:alg4:delivered', 'resp:authentic:alg5:delivered',
                      'resp:flip:v2:refused', 'resp:flip:v1:refused', 'resp:flip:v1:*', 'resp:trunc:v2:refused', 'resp:trunc:v1:refused', 'resp:splice:v2:refused',
                      'resp:other-key:v2:refused', 'resp:other-key:v1:refused', 'resp:other-alg:v2:refused', 'resp:other-alg:v1:refused', 'resp:other-alg-unpinned:v2:*',
                      'resp:unpinned-bad-key:v2:refused', 'resp:other-version:v2:refused', 'resp:other-version:v1:refused', 'resp:no-header:v2:refused',
                      'resp:no-mac:v2:refused', 'resp:no-mac:v1:refused', 'resp:mac-not-last:v2:refused', 'resp:bad-mac:v2:refused', 'resp:ha-cross-key:v2:refused',
                      'resp:ha-one-endpoint-bad:v2:*'],
    assumptions=['the fake transport delivers exactly what the handler produced',
                 'for a stream transport (TCP) the received PDU is the prefix delimited by the outer TLV header',
                 'an unauthenticated error PDU or an unmatched asynchronous response ends the request with an error / timeout, which satisfies "error and never delivered content"',
                 'in PDU v1 only the outer PDU header and the MAC element header are outside the authenticated range; a flip there may be delivered when the content is identical'],
    deadline=dict(quick=600, thorough=2400),
)
