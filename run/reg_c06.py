"""C06 registry entry."""
PID = 'C06'
SPEC = dict(
    driver='c06_hmac',
    extra=['ref/ref.c', 'ref/ref_sig.c', 'ref/ref_pdu.c', 'simnet.c'],
    rule='tbd',
    bounds=dict(quick='tbd', thorough='tbd'),
    technique='tbd',
    level_text='tbd',
    level_note='tbd',
    require_outcomes=[],
    assumptions=[],
)
