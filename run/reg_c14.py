"""C14 registry entry."""
PID = 'C14'
SPEC = dict(
    driver='c14_tcpframe',
    extra=['ref/ref.c', 'ref/ref_sig.c', 'ref/ref_pdu.c', 'simnet.c'],
    rule='TODO',
    bounds=dict(quick='TODO', thorough='TODO'),
    technique='TODO',
    level_text='TODO',
    level_note='TODO',
    require_outcomes=[],
    assumptions=[],
)
