"""C14 registry entry."""
PID = 'C14'
SPEC = dict(
    driver='c14_tcpframe',
    extra=['ref/ref.c', 'ref/ref_sig.c', 'ref/ref_pdu.c', 'simnet.c'],
    rule='Schedule enumeration at the socket seam: every answer of connect / poll / send / recv is owned by the driver. A case = one complete schedule '
         '(chunk boundaries, would-block answers, one fault at a byte offset, connect script) run on the real client code. Parts: '
         'rx = TCP async transport object driven directly (dispatch/getResponse), server streams of 1..3 TLV-framed PDUs with sizes {2,3,4,5,6 (TLV8 and TLV16 forms),257,258,260,65539}, '
         'boundary code per byte position (none / chunk boundary / boundary + would-block); rxc = whole PDUs + every proper prefix of one more PDU, then peer close / reset, then a new request '
         'whose stream must be framed from its own first byte on a fresh connection; tx = 1..3 tiny requests (<= 10 bytes) through addRequest/dispatch, every composition of partial sends, '
         'each chunk optionally preceded by would-block, round limit 100 / 1 per virtual second; txf = connection lost at every output byte offset of tiny requests; '
         'e2e = KSI_AsyncService_run over ksi+tcp:// with 1..3 real aggregation requests (102/103 bytes) and authentic replies (147 bytes each) of the reference aggregator: 1-cuts and 2-cuts of the '
         'response stream and of the request stream, would-block variants, server answering at once or after the last request; flt = one fault (peer close, ECONNRESET, EPIPE, EINTR, would-block) at every byte '
         'offset of input and of output, peer close/reset while a request is half written, connect refused / POLLHUP / poll error / EINTR / pending k polls / never completing (virtual clock), '
         'each followed by two later requests; blk = blocking client through KSI_Signature_signAggregated: every 1-cut (and 2-cuts) of request and response, EINTR, close / reset / timeout at every '
         'offset, connect refused / interrupted / timed out, each followed by a second request. Distinct = case name; every case reaches an oracle comparison. '
         'Further parts: opt (transfer time-out setters reach the socket), blkraw (the blocking reader hands up 12 PDU shapes x 4 chunkings unchanged), flt:conn2 (the connection after a served and closed one is refused / hangs up / never comes up).',
    bounds=dict(
        quick='rx: every composition (2^(n-1)) of all streams <= 10 bytes, with and without would-block at every boundary, full ternary codes <= 7 bytes; longer streams of 1..2 PDUs: every 1-cut for single PDUs '
              '< 65539 bytes, cuts at PDU/header/receive-capacity boundaries +-1 and their pairs otherwise; tx: request batches <= 7 bytes, all ternary codes; e2e: every 1-cut, every 2-cut of one response, '
              'boundary pairs + stride for 2..3 responses; every 1-cut of 1..3 requests, strided 2-cuts; flt / txf / rxc / blk faults: every byte offset; blk 2-cuts strided',
        thorough='rx: every composition of all streams <= 14 bytes (2^13 per 14-byte stream), would-block variant <= 12 bytes, full ternary codes <= 9 bytes; all 1884 sequences of 1..3 PDUs over the 12 kinds: '
                 'every 1-cut (streams without the 65539-byte PDU), every 2-cut (<= 40 bytes), boundary cuts +-1 and all their pairs otherwise, with and without would-block (pairs on 3-PDU streams without); tx: batches <= 10 bytes, all ternary codes (3^9 x 2); '
                 'e2e: every 2-cut of 1..2 responses (3 responses: pairs touching a PDU boundary + every second other pair), every 2-cut of 1..2 requests (3 requests: pairs touching a boundary + every third); blk: every 2-cut of request and response'),
    technique='exhaustive, deviation-bounded enumeration of environment schedules at the socket seam against the real client code under ASan+UBSan; reference TLV splitter and byte-exact wire comparison as oracle',
    level_text='All schedules of the stated finite space are executed on the compiled client code (non-blocking transport object, asynchronous service, blocking client) with a simulated socket layer whose every '
               'answer is a choice of the driver; nothing is sampled. Oracles: (1) the bytes written on each connection must parse as whole serialized requests (taken from the handles before anything is sent) in '
               'submission order, cut short only where that connection ended, a cut request may only travel again whole; (2) the octet strings handed upward must equal the reference split (rtlv_read) of the '
               'server stream, byte for byte, for every chunking, incomplete tails never; every request must be handed back with the signature for its own hash when its whole response was delivered; '
               '(3) after a fault the affected requests must be handed back in state ERROR with a network error within an explicit horizon of run() rounds (virtual clock +1 s per idle round; a step budget on '
               'socket calls flags spinning), the failed socket must be closed and two later requests must travel whole on a fresh connection and complete. Buffer accesses are checked by ASan on the heap-allocated '
               'transport context (131 KB block; the 65539-byte PDU streams fill the reassembly buffer to 131077 of 131078 bytes).',
    level_note='Trusted: the simulated socket layer (harness/simnet.c), the reference TLV/PDU model and aggregator, OpenSSL digests. KSI_IO_ERROR (0x201, reset while reading in the blocking client) is counted as a '
               'network error. EAGAIN and EWOULDBLOCK are the same errno on Linux (one answer). An overflow inside the transport context block that stays within the block is not visible to ASan; it would show up as wrong PDUs. '
               'EINTR on the non-blocking socket may either be retried or end the connection (both accepted; the client closes). The fits-in-buffer test of the reassembly loop can never be false for well-framed input '
               '(at the top of the loop fewer than 65539 bytes are buffered), so its boundary is not reachable.',
    require_outcomes=['rx:pdus:1', 'rx:pdus:3', 'rxc:close:closed', 'rxc:reset:closed', 'tx:dispatch-rc:*', 'txf:reset:reconnected', 'e2e:rx:first:ok', 'e2e:tx:first:ok',
                      'flt:rx:close:first:err:*', 'flt:rx:close:first:ok', 'flt:rx:reset:first:err:*', 'flt:rx:wb:first:ok', 'flt:rx:close:later:ok', 'flt:tx:wb:first:ok', 'flt:tx:reset:later:ok',
                      'flt:conn:refused:first:err:*', 'flt:conn:never:first:err:*', 'flt:conn:hup:first:err:*', 'flt:conn:pending:first:ok', 'flt:conn:refused:later:ok',
                      'blk:rx:success', 'blk:tx:success', 'blk:rxf:close:error:*', 'blk:rxf:reset:error:*', 'blk:txf:reset:error:*', 'blk:conn:refused:error:*'],
    assumptions=['the simulated socket layer delivers exactly the scheduled answers; request and response sizes are those of the calibration run (deterministic)',
                 'one fault per schedule (plus chunking / would-block deviations); combinations of several faults are not enumerated'],
    deadline=dict(quick=600, thorough=2400),
)
