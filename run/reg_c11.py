"""C11 registry entry."""
PID = 'C11'
SPEC = dict(
    driver='c11_history',
    extra=['ref/ref.c', 'ref/ref_sig.c', 'ref/ref_pdu.c', 'ref/ref_pki.c', 'simnet.c'],
    rule='Exhaustive enumeration of operation histories on ONE shared KSI_CTX. A history = parse(s0), s0 in 4 canonical reference-built signatures (no calendar chain / '
         'calendar chain / + publication record / + authentication record signed with the test PKI; first level corrections 1, 4, 3, 3 - a successful prepend uses up the whole correction of the first two), followed by EVERY applicable '
         'sequence of at most L operations over a 261-letter alphabet (an operation is applicable when the slot it names holds a live signature; at most 3 live '
         'signatures, a new one replaces the oldest): parse(s) x4; parse(garbage) x3 (truncated, wrong outer tag, inconsistent chain index); log level none / debug '
         '(discarding callback); per slot: clone; serialize; verify(policy in {internal, user-publication, publications-file, key-based, calendar-based, general} x '
         'document hash {none, matching, other} x level {0, 1, 200, 300}) with an honest extender plus calendar-based verification with an extender that answers an error '
         'status / another input hash; extend with extender {correct, error status, other input hash}; prepend a local aggregation chain at start level {0, 3, 250} '
         '(builder: setAggregationChainStartLevel + appendAggregationChain + close, as the SDK block signer does; the caller-held chain object is re-used after a '
         'prepend that was refused before the chain was touched); add root level {2, 300} (builder close). One case per sequence, named by the operation indices '
         '(h:<s0>.<op>.<op>...). Oracle after EVERY operation: every live signature serializes to exactly the bytes it was created with (parsed bytes; clone = source; '
         'derived signature = its first serialization); every verdict (return code, finalResult.resultCode, errorCode) and every derivation (return code, bytes of the '
         'derived signature) equals the result of the same call on a FRESH context with a freshly parsed copy (tabulated lazily, cache keyed by signature bytes and '
         'parameters); garbage must be refused; the context\'s last-failed signature must stay serializable; at the end no SDK allocation may stay live; ASan/UBSan silent. '
         'Further: operation getters (caller-owned results released as documented, hash pool exercised); canonical signatures carry a legacy-id and a metadata link; the one-call prepend form at start level 0. '
         'After every internal-policy verification the same question is put through KSI_Signature_verifyWithPolicy with the verification context the application keeps for all its calls.',
    bounds=dict(quick='all applicable sequences of <= 2 operations after parse(s0) over the full alphabet (37 324 histories) + all of exactly 3 operations over the '
                      '30-letter sub-alphabet that touches caches and state (24 203 histories)',
                thorough='all applicable sequences of <= 3 operations after parse(s0) over the full alphabet (4 115 332 histories) + all of exactly 4 operations over the '
                         'sub-alphabet (581 637 histories)'),
    technique='bounded-exhaustive history enumeration on the real compiled code (ASan+UBSan) with a differential oracle: state reached from elsewhere vs. fresh context',
    level_text='Every history up to the depth bound is executed on one shared context; after each operation all live signatures are re-serialized and compared byte for byte, '
               'and every verification verdict / derived signature is compared with the same call on a fresh context, so any state that leaks between operations '
               '(memoised chain outputs keyed by start level, the last-failed-signature reference, the data-hash recycle pool, results cached inside the signature '
               'object, builder write-backs into shared sub-objects) and changes an observable result within the bound is reported together with the operation history.',
    level_note='Trusted: reference signature / PDU / PKI models, OpenSSL, simulated transport. The fresh-context results are produced by the same library build, so a defect '
               'that is independent of history (same wrong answer on a fresh context) is out of scope here (C01-C04, C08 judge absolute correctness). Histories longer '
               'than the bound and alphabets beyond the stated one are not covered.',
    require_outcomes=['parse:ok', 'garbage:*:refused', 'clone:ok', 'serialize:ok', 'log:debug', 'verify:*:OK', 'verify:*:FAIL', 'verify:*:NA', 'verify:*:error',
                      'verify:key:OK', 'verify:calendar:OK', 'verify:userpub:OK', 'verify:pubfile:OK', 'verify:general:OK',
                      'extend:ok', 'extend:error', 'prepend:ok', 'prepend:error', 'prepend:retry-with-held-chain:ok', 'addroot:ok', 'addroot:error'],
    assumptions=['the fake transport delivers exactly what the handler produced',
                 'a caller may re-use its local aggregation chain object after KSI_SignatureBuilder_appendAggregationChain refused it without modifying it'],
    deadline=dict(quick=1500, thorough=7200),
)
