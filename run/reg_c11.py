"""C11 registry entry."""
PID = 'C11'
SPEC = dict(
    driver='c11_history',
    extra=['ref/ref.c', 'ref/ref_sig.c', 'ref/ref_pdu.c', 'ref/ref_pki.c', 'simnet.c'],
    rule='placeholder',
    bounds=dict(quick='placeholder', thorough='placeholder'),
    technique='placeholder',
    level_text='placeholder',
    level_note='placeholder',
    require_outcomes=[],
    assumptions=[],
)
