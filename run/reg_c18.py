"""C18 registry entry."""
PID = 'C18'
SPEC = dict(
    driver='c18_pubfile',
    extra=['ref/ref.c', 'ref/ref_sig.c', 'ref/ref_pki.c', 'simnet.c'],
    rule='(struct) ALL record sequences up to a length bound over {header, certificate, publication, signature, unknown critical, unknown non-critical}, '
         'each built and PKCS#7-signed with a test CA, plus wrong / truncated magic and trailing bytes / records on every otherwise valid sequence; every accepted file is also re-serialized '
         '(KSI_PublicationsFile_serialize) and the signed range reported afterwards compared with the signature offset of the serialized bytes; '
         '(trust) signer {chains to anchor, rogue CA, other e-mail} x configured anchor {good, rogue, none} x constraint set {none, matching, mismatching, two matching, one of two mismatching, matching / mismatching e-mail through KSI_CTX_setPublicationCertEmail}, each through parse, '
         'KSI_PublicationsFile_fromFile, a file object parsed under another context, constraint lists on the file object, and verification repeated after a serialization; signature swapped between files; '
         '(flip) every single-bit change of a small signed file; (lookup) ALL publication-time sequences up to a length over times {1..5} x query times 0..6 and none x every lookup function, certificate ids present / absent / altered / prefix / extended. '
         'Oracle: reference structure rule, offset of the signature record, reference trust decision, reference scan. '
         'Constraint sets 7..9: an attribute the signer\'s subject lacks (after a matching constraint expecting the same string; alone) and a second matching constraint. '
         'After a publication record was removed in place and the file serialized again, the signed range ends where the signature record of the new bytes starts.'
         ' Look-up by record (KSI_PublicationsFile_findPublication): time and imprint of every record of the file, also behind a record with the same time, and foreign imprints.',
    bounds=dict(quick='record sequences len<=5 (9331 x variants); bit flips: 2 bits per byte of the file; publication-time sequences len<=3',
                thorough='record sequences len<=6; every bit of the file; publication-time sequences len<=4'),
    technique='bounded-exhaustive enumeration of record sequences, trust configurations, bit flips and lookup tables against a reference structure rule / trust decision / scan',
    level_text='Every record sequence up to the bound, every trust configuration in the matrix, every (thorough) single-bit change of a signed file and every small lookup table is run through the real parser, PKI verification (OpenSSL) and lookup functions and compared with an independent reference. The property is a conjunction of input/output relations over small structured inputs; complete enumeration within the bound decides it.',
    level_note='Trusted: OpenSSL X.509/PKCS#7 primitives (used both to build the test PKI and by the SDK), reference model. Unknown NON-critical top-level records are treated as statement-silent (either verdict accepted).',
    require_outcomes=['struct:valid:accepted', 'struct:invalid:refused', 'trust:trusted-expected:trusted', 'trust:untrusted-expected:refused', 'flip:refused', 'lookup:found', 'lookup:absent'],
    assumptions=['OpenSSL PKCS#7 / X.509 verification is correct'],
    deadline=dict(quick=600, thorough=2400),
)
