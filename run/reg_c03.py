"""C03 registry entry."""
PID = 'C03'
SPEC = dict(
    driver='c03_chain',
    rule='Bounded-exhaustive enumeration. A case is one aggregation chain (link sequence: direction x sibling kind '
         '{imprint, legacy id, metadata with/without padding} x level correction; hashed under an algorithm) evaluated at several '
         'start levels, or one calendar chain (direction x sibling algorithm per link), or one calendar shape evaluated against '
         'EVERY publication time 0..Pmax. Distinct = distinct case name (the enumeration index tuple); non-trivial = the reference '
         'either computed a root/time that was compared with the library output or demanded rejection. '
         'Further: a derived registration time must fit the signed result type (publication times of 2^63 and more). '
         'A refused aggregation (single chain, link list, list of chains) must not hand out a root. '
         'Every other aggregation is preceded by a root-only call (no level output) on the same chain object. '
         'A metadata sibling edited in place through its setter: the link list aggregates to the root of the record as it is now.',
    bounds=dict(
        quick='aggregation: all link sequences len<=2 over 2 dirs x 4 sibling kinds x 14 corrections x 6 start levels; all 10 algorithm ids x 10 input algorithms x len<=2; all 2^n direction patterns n<=8 (+n=61..63 boundary patterns) incl. shape index; long chains 13..257 around level 255; chain lists of 1..3 chains; calendar roots: all chains len<=4 over dir x 3 sibling algorithms x 3 input algorithms; registration time: all shapes len<=8 x all P in 0..256, plus 12 large-P boundary families with all one-link perturbations',
        thorough='as quick with link sequences len<=3 (7 corrections), direction patterns n<=12, calendar roots len<=6, registration time all shapes len<=12 x all P in 0..4096'),
    technique='bounded-exhaustive input enumeration on the compiled code, compared with an independent reference chain/calendar arithmetic',
    level_text='Every element of a stated finite input space (see evidence.bounds) is executed on the real libksi object code under ASan/UBSan and compared with an independent reference implementation of the KSI chain formula; nothing is sampled. This is the right level because the property is a universally quantified input/output relation of pure functions: a complete bounded enumeration around every boundary visible in the code (level 255, corrections 255/256/2^31/2^32/2^64-1, algorithm switch, highest-bit arithmetic) decides it within the bound.',
    level_note='Trusted: OpenSSL digest primitives, the reference arithmetic in harness/ref/ref.c, gcc sanitizers. Inputs beyond the stated bounds are not covered.',
    require_outcomes=['aggr:a1:reject-expected:*', 'aggr:a1:accept-expected:ok', 'cal-root:alg*'],
    assumptions=['OpenSSL EVP digest primitives are correct (shared by the library and the reference)',
                 'the reference chain arithmetic in harness/ref/ref.c is a faithful transcription of the KSI chain formula'],
)
