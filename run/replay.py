#!/usr/bin/env python3
import sys, json, os, subprocess
V = os.path.dirname(os.path.dirname(os.path.abspath(__file__)))
sys.path.insert(0, os.path.join(V, 'run'))
import check
from registry import PROPS
c = json.load(open(sys.argv[1]))
spec = PROPS[c['property']]
drivers = spec['drivers'] if 'drivers' in spec else [spec]
d = [x for x in drivers if x['driver'] == c['driver']][0]
repo = os.environ.get('VERIF_REPO', '/repo')
exe, err = check.build(repo, c.get('variant', 'asan'), c['driver'], d, sys.stderr)
if err:
    print(err); sys.exit(2)
env = dict(os.environ, ASAN_OPTIONS=check.ASAN_ENV, UBSAN_OPTIONS='print_stacktrace=1', VERIF_DIR=V, VERIF_REPO=repo)
env.update(spec.get('env', {}))
r = subprocess.run([exe, '--tier', c['tier'], '--seed', str(c.get('seed', 0))] + d.get('args', []) + ['--replay', c['case']], env=env, cwd=V)
sys.exit(r.returncode)
