"""C08 registry entry."""
PID = 'C08'
SPEC = dict(
    driver='c08_extend',
    extra=['ref/ref.c', 'ref/ref_sig.c', 'ref/ref_pdu.c', 'simnet.c'],
    rule='Extender-behaviour enumeration at the transport seam. A case = (interface {KSI_Signature_extendTo, KSI_Signature_extend, async extending service, high-availability extending service with two endpoints} x '
         'transport {TCP, HTTP} x PDU version x source signature form {no calendar chain, calendar chain, + publication record, + authentication record} x '
         'target {calendar head, = aggregation time, later, earlier} x supplied publication record {none, matching, other hash, other time} x extender reply '
         '(17 classes incl. 13 status codes, each right link altered). The reference extender serves chains from a virtual calendar consistent with the source '
         'signature; the reference decision procedure says whether the reply may be accepted and what the extended signature must be. '
         'Record replacement on its own: KSI_Signature_replacePublicationRecord (once / twice) on sources with no anchor, a publication record, an authentication record (record listed last / first): '
         'the serialized result equals the reference result (former anchor gone), parses again and clones identically. '
         'Further: status codes wider than 32 bits; response object / second signature request / re-submission on the asynchronous handle. '
         'Replies without a status element that bear another request id / publication time / aggregation time; an error payload next to the correct response. '
         'The WithPolicy forms of the blocking calls with the caller\'s own verification context (fresh, or still naming the source signature).'
         ' Altered right link at the first, second, third and last position; signatures laid out record, calendar chain, aggregation chains; the extended result extended once more (identical).',
    bounds=dict(
        quick='TCP: all replies; HTTP: correct / wrong-id / right-altered; source forms with calendar chain: all replies, others: 4 key replies; first 2 sub-variants',
        thorough='full product of the dimensions above (v1 for correct / wrong-id / other-version / right-altered), plus two-chain sources'),
    technique='exhaustive enumeration of an extender-behaviour menu at the transport seam against the real client code; reference extender + reference decision procedure as oracle',
    level_text='Every combination in a finite menu (source form x target x supplied record x extender reply) is driven through the real extending code paths; success is required exactly when the independent reference decision procedure accepts the reply, the extended signature is compared (canonical re-serialization) with the reference result, and the source serialization is compared before/after in every case.',
    level_note='Trusted: reference PDU/signature model, virtual calendar, simulated transport. KSI_extendSignature (publications-file driven) is exercised under C04/C18 machinery.',
    require_outcomes=['extendTo-tcp:success', 'extend-tcp:success', 'async-tcp:success', 'async-http:success', '*:error', 'ref:right-altered:unacceptable', 'ref:correct:acceptable'],
    assumptions=['the fake transport delivers exactly what the handler produced'],
)
