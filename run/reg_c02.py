"""C02 registry entry."""
PID = 'C02'
SPEC = dict(
    driver='c02_dochash',
    extra=['ref/ref.c', 'ref/ref_sig.c', 'ref/ref_pdu.c', 'ref/ref_pki.c', 'simnet.c'],
    rule='For each of the six verifying policies a world is built in which the signature is bound to a MATCHING trust anchor (user publication, user publications file with certificate, '
         'simulated extender), so the only reason for a non-OK verdict is the document hash / level. A case = (policy x signature variant {first level correction 0,1,3,7,254; legacy RFC3161 forms; a first chain of three links with corrections absent, 2, 1}) x '
         'part: (hashes) equal hash, EVERY single-bit flip of the digest, same digest under two other algorithms, two other lengths; (levels) EVERY level 0..300 plus 7 boundary values up to 2^64-1, with and '
         'without document hash; (both) levels with a foreign digest. Interfaces: KSI_SignatureVerifier_verify, KSI_Signature_verifyWithPolicy with and without caller context, KSI_verifyDataHash. '
         'Document part: a key-based fixture signature over the hash of a real 45-byte document under SHA-256 / SHA-384 / SHA-512 / RIPEMD-160 with the context-wide anchors '
         '(publications URL served by the fixture): KSI_Signature_verifyDocument, KSI_verifySignature and KSI_verifyDataHash accept the document / its hash and refuse every '
         'single-bit change of the document (360), every other length (prefixes, one byte more, empty) and the document hashed with another algorithm. '
         'Further: document-bytes helpers (KSI_Signature_verifyDocument, KSI_verifySignature, KSI_verifyDataHash with context-wide anchors), KSI_Signature_fromFileWithPolicy, the context cleaned and used again.'
         ' Mixed forms: the hash as an explicit argument with the level in the caller\'s context, and the reverse.',
    bounds=dict(quick='signature variants {lc 3, RFC3161} for all six policies (+ lc 254 internal, lc 1 key-based and general, three-link first chain internal; lc 1 also general)', thorough='all nine signature variants x six policies'),
    technique='bounded-exhaustive enumeration of document hashes (all single-bit flips) and levels (0..300 + boundaries) x policies on the compiled code against the stated verdict table',
    level_text='All single-bit perturbations of the document digest, all levels 0..300 and the 32/64-bit boundary levels are verified under each of the six verifying policies with a matching anchor; the verdict (OK / FAIL GEN-01 / GEN-04 / GEN-03 / refused) is compared with the table stated by the property.',
    level_note='Trusted: reference signature/PKI models, simulated extender. Digest perturbations with more than one flipped bit are not enumerated.',
    require_outcomes=['*:verifier:expect-OK:OK', '*:verifier:expect-GEN-01:FAIL', '*:verifier:expect-GEN-04:FAIL', '*:verifier:expect-GEN-03:FAIL', '*:verifier:expect-refused:error',
                      'key:verifier:expect-OK:OK', 'calendar:verifier:expect-OK:OK', 'pubfile:verifier:expect-OK:OK', 'userpub:verifier:expect-OK:OK', 'general:verifier:expect-OK:OK'],
    assumptions=[],
)
