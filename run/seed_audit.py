#!/usr/bin/env python3
"""seed_audit.py [name ...] - detection audit over /verif/seeded/<name>/ (patch.diff, demo.c, meta.json).

For each seeded change: a scratch git worktree of /repo HEAD is created under /var/tmp, the patch is applied,
(1) the pinned baseline (header include test) is run on it, (2) the demonstration program is built and run on the
unchanged and on the changed tree (must pass / fail), (3) the property's check is run with VERIF_REPO pointing at the
scratch tree and must print a VIOLATION line. The scratch tree and its build output are removed afterwards.
Results are written to seeded/<name>/audit.json and summarised in seeded/AUDIT.md."""
import sys, os, json, subprocess, shutil, hashlib, time

V = os.path.dirname(os.path.dirname(os.path.abspath(__file__)))
SEEDED = os.path.join(V, 'seeded')


def sh(cmd, cwd=None, env=None, timeout=3600):
    p = subprocess.run(cmd, shell=True, cwd=cwd, env=env, stdout=subprocess.PIPE, stderr=subprocess.STDOUT, text=True, errors='replace', timeout=timeout)
    return p.returncode, p.stdout


def build_demo(tree, demo, out, fi=False, extra=''):
    srcs = "$(ls src/ksi/*.c | grep -v -e cryptoapi -e winhttp -e wininet -e commoncrypto)"
    if fi:
        # demonstration brings its own allocator (my_malloc/my_calloc/my_free) behind base.c
        flags = '-g -O1 -fsanitize=address -DHAVE_CONFIG_H -Isrc -Isrc/ksi -w'
        srcs = "$(ls src/ksi/*.c | grep -v -e cryptoapi -e winhttp -e wininet -e commoncrypto -e src/ksi/base.c)"
        rc, o = sh('gcc %s -Dmalloc=my_malloc -Dcalloc=my_calloc -Dfree=my_free -c src/ksi/base.c -o %s.base.o' % (flags, out), cwd=tree)
        if rc != 0:
            return rc, o
        r = sh('gcc %s %s %s.base.o %s -lcrypto -lcurl -lpthread -ldl -o %s' % (flags, srcs, out, demo, out), cwd=tree)
        try:
            os.unlink(out + '.base.o')
        except OSError:
            pass
        return r
    return sh('gcc -g -O1 -fsanitize=address -DHAVE_CONFIG_H -Isrc -Isrc/ksi -w %s %s %s -lcrypto -lcurl -lpthread -ldl -o %s' % (extra, srcs, demo, out), cwd=tree)


def audit(name, tier='quick'):
    d = os.path.join(SEEDED, name)
    meta = json.load(open(os.path.join(d, 'meta.json')))
    pid = meta['property']
    scratch = '/var/tmp/vf_seed_%s' % name
    res = dict(name=name, property=pid, at=time.strftime('%Y-%m-%d %H:%M:%S'))
    sh('git -C /repo worktree remove --force %s' % scratch)
    shutil.rmtree(scratch, ignore_errors=True)
    rc, out = sh('git -C /repo worktree add -q --detach %s HEAD' % scratch)
    if rc != 0:
        res['error'] = 'worktree: ' + out
        return res
    try:
        for f in ('config.h', 'version.h'):
            shutil.copy('/repo/src/ksi/' + f, scratch + '/src/ksi/' + f)
        demo = os.path.join(d, 'demo.c')
        for k in ('1', '2', '3'):   # some demonstrations write scratch files next to where they were developed
            os.makedirs(os.path.join(scratch, 'seed_out', k), exist_ok=True)
        env = dict(os.environ, ASAN_OPTIONS='detect_leaks=0')
        if os.path.exists(demo):
            rc, out = build_demo(scratch, demo, '/var/tmp/vf_seed_%s_demo0' % name, meta.get('demo_alloc_seam', False), meta.get('demo_flags', ''))
            r0, o0 = sh('/var/tmp/vf_seed_%s_demo0' % name, cwd=scratch, env=env, timeout=300) if rc == 0 else (999, out)
            res['demo_unchanged_rc'] = r0
        rc, out = sh('git apply %s' % os.path.join(d, 'patch.diff'), cwd=scratch)
        if rc != 0:
            res['error'] = 'patch does not apply to /repo HEAD: ' + out[-500:]
            return res
        rc, out = sh('CC=gcc CFLAGS="-I%s/src/" bash ./test/include-test.sh ./test' % scratch, cwd=scratch)
        res['baseline_passes'] = (rc == 0 and 'OK (' in out)
        if os.path.exists(demo):
            rc, out = build_demo(scratch, demo, '/var/tmp/vf_seed_%s_demo1' % name, meta.get('demo_alloc_seam', False), meta.get('demo_flags', ''))
            res['compiles'] = rc == 0
            r1, o1 = sh('/var/tmp/vf_seed_%s_demo1' % name, cwd=scratch, env=env, timeout=300) if rc == 0 else (999, out)
            res['demo_changed_rc'] = r1
            res['demo_changed_output'] = o1[-600:]
        checks = meta.get('checks', [pid])
        res['checks'] = {}
        for c in checks:
            t0 = time.time()
            rc, out = sh('python3 run/check.py %s --tier %s' % (c, tier), cwd=V, env=dict(os.environ, VERIF_REPO=scratch), timeout=7200)
            viol = [l for l in out.splitlines() if l.startswith('VIOLATION ')]
            res['checks'][c] = dict(rc=rc, violations=len(viol), first=(viol[0][:400] if viol else ''), wall_s=round(time.time() - t0, 1), tail=out.splitlines()[-1][:300] if out else '')
        res['detected'] = any(v['rc'] == 1 and v['violations'] > 0 for v in res['checks'].values())
    finally:
        sh('git -C /repo worktree remove --force %s' % scratch)
        shutil.rmtree(scratch, ignore_errors=True)
        for k in (0, 1):
            try:
                os.unlink('/var/tmp/vf_seed_%s_demo%d' % (name, k))
            except OSError:
                pass
        h8 = hashlib.md5(os.path.realpath(scratch).encode()).hexdigest()[:8]
        tag = 'alt_%s_' % h8
        for b in os.listdir(os.path.join(V, 'build')):
            if b.startswith(tag) or b in ('log_alt_' + h8, 'replay_alt_' + h8):
                shutil.rmtree(os.path.join(V, 'build', b), ignore_errors=True)
    json.dump(res, open(os.path.join(d, 'audit.json'), 'w'), indent=1)
    return res


def main():
    names = [a for a in sys.argv[1:] if not a.startswith('--')]
    tier = 'thorough' if '--thorough' in sys.argv else 'quick'
    if not names:
        names = sorted(n for n in os.listdir(SEEDED) if os.path.isdir(os.path.join(SEEDED, n)))
    rows = []
    for n in names:
        r = audit(n, tier)
        print(json.dumps({k: r.get(k) for k in ('name', 'property', 'baseline_passes', 'demo_unchanged_rc', 'demo_changed_rc', 'detected', 'error')}))
        rows.append(r)
    # summary over everything that has an audit.json
    lines = ['# Seeded-change detection audit', '', '| change | property | baseline passes | demo unchanged/changed rc | detected by | ', '|---|---|---|---|---|']
    for n in sorted(os.listdir(SEEDED)):
        p = os.path.join(SEEDED, n, 'audit.json')
        if os.path.exists(p):
            r = json.load(open(p))
            det = ', '.join('%s (%d violations, %.0fs)' % (c, v['violations'], v['wall_s']) for c, v in r.get('checks', {}).items() if v['violations']) or ('ERROR: ' + r['error'] if 'error' in r else 'NOT DETECTED')
            lines.append('| %s | %s | %s | %s / %s | %s |' % (n, r.get('property'), r.get('baseline_passes'), r.get('demo_unchanged_rc'), r.get('demo_changed_rc'), det))
    open(os.path.join(SEEDED, 'AUDIT.md'), 'w').write('\n'.join(lines) + '\n')


if __name__ == '__main__':
    main()
