"""C09 registry entry."""
PID = 'C09'
SPEC = dict(
    driver='c09_tlv',
    extra=['ref/ref.c', 'simnet.c', 'ref/ref_tlvtree.c'],
    rule='placeholder',
    bounds=dict(quick='placeholder', thorough='placeholder'),
    technique='bounded-exhaustive enumeration on the compiled code, compared with an independent reference TLV tree codec',
    level_text='placeholder',
    level_note='placeholder',
    require_outcomes=[],
    assumptions=[],
)
