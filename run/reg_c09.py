"""C09 registry entry."""
PID = 'C09'
SPEC = dict(
    driver='c09_tlv',
    extra=['ref/ref.c', 'simnet.c', 'ref/ref_tlvtree.c'],
    rule='Bounded-exhaustive enumeration, nothing sampled. A case is a named block of the finite space: (a) one first header byte x all 256 '
         'second bytes x the declared lengths x {0,1,2,3,declared-1,declared,declared+1} following bytes; (b) one block of reference trees '
         '(root label / number of children / first child label, or a sum target, or a tree shape) in which every tree is built through the '
         'tree codec and the element codec, serialized by every serializer with every option set into every buffer size of the bound, cloned, '
         'converted nested->raw, and its reference encoding parsed back through tree codec, element codec and header reader; (c) one base tree: '
         'its encoding, every truncation, one trailing byte, two copies, every length field x 7 perturbations, each through all parsers with '
         'expansion to depth 3 and re-serialization; (d) one stream element x every chunking x trailing bytes x reader. Distinct = distinct '
         'case name (the enumeration indices); non-trivial = at least one libksi call was compared with the reference tree model '
         '(harness/ref/ref_tlvtree.c). Within a case each disagreement signature is reported once; all instances are counted (dev:<sig>). '
         'Further: a refused expansion is asked again (still refused, payload unchanged); after the final detach of an edit sequence the element\'s own buffer must be its encoding. '
         'Truncated streams are read into buffers pre-filled with ee / 00 / 01 and into a larger buffer.',
    bounds=dict(
        quick='(a) all 2^16 two-byte prefixes; TLV16 prefixes with declared lengths {0,1,3,255,256,257}; plus all 1-byte inputs and the empty input; '
              'each input in an exactly sized heap block through KSI_FTLV_memRead, KSI_FTLV_memReadN (count and array), KSI_TLV_parseBlob + getNestedList, '
              'KSI_TlvElement_parse + expansion. (b1) tags {0,1,1f,20,ff,100,1fff} x 4 flag sets x raw length {0,1,254,255,256,257,65534,65535,65536,65537,70000}; '
              '(b2a) parent 7 tags x 4 flags with 0..2 children, each child from 7 tags x 4 flags x length {0,1}; (b2b) parent {1f,20} with 1..3 children, each from '
              '{1f,20} x 8 lengths (all 4368 x 2 combinations); (b3) 1..3 children whose encodings sum to {65527,65528,65531,65532,65534..65537,65539..65541,131071..131073} '
              'under 8/5 split patterns, both orders, bare / wrapped once / wrapped with a sibling; (b4) root {1f,20} -> 1..2 mids {1f,20} -> 0..2 leaves from {1f,20} x '
              '{0,1,254,255,256}; (b5) all 85 ordered shapes of depth<=3 with 1..3 children x 28 label rotations x 3 length schemes; (b6) depth-3 chains with leaf '
              'length 246..256 and 65526..65535. Output buffers: every size 0..need+2 when need<=40, else {0,need-1,need,need+1,65540}; 4 option sets '
              '(NO_HEADER x NO_MOVE); each size once between canary areas and once as an exactly sized heap block (ASan). (c) all 13 shapes of depth<=3 with 1..2 children '
              'x 3 length schemes x 4 label rotations. (d) TLV8 payload 0..10 and TLV16 payload 0..8 (encodings <= 12 bytes) x 3 header variants x trailing {0,1,3} bytes x all '
              '2^(n-1) chunkings x 2 tail modes through socketRead (simnet) and fileRead (chunked unbuffered stream), fmemopen, every smaller buffer, every cut stream; '
              'elements of 255/256/65534/65535 bytes. (e) element edits: 9 start trees (0..3 children, tags {1,2,0x20}, lengths {0,3,253}) x origin {parsed, built, built+detached} x every sequence of 1..2 operations '
              'from {remove tag, append (tag,len), set (tag,len)} (21 operations): serialization after every operation and after a final detach equals the reference encoding; absent / ambiguous tags are refused. (f) tree-codec edits: 6 start trees x origin '
              '{KSI_TLV_parseBlob, parseBlob2 adopting the buffer, built} x every sequence of 1..2 operations from {expand (getNestedList), collapse (getRawValue), setRawValue of the parent / of child k with lengths {0,3,300}, '
              'append, replace child k} (32 operations): serialization, raw payload and a clone after every operation equal the reference; a refused operation leaves the tree unchanged.',
        thorough='as quick with: (a) TLV16 declared lengths {0,1,2,3,4,255,256,257,1000} for every prefix and {65534,65535} for second byte 00/80/ff; (b2a) 0..3 children '
                 '(4.9 M trees); (b4) leaf lengths {0,1,254,255,256,257}; buffer sizes additionally {1,need-2,need+2}; (c) all 85 shapes with 1..3 children; (e), (f) sequences of 1..3 operations.'),
    technique='bounded-exhaustive input enumeration on the compiled code (ASan/UBSan, exactly sized heap buffers, canary areas), compared with an independent reference TLV tree encoder/decoder',
    level_text='Every element of the stated finite spaces is executed on the real libksi object code and compared with an independent ~250 line reference model of the TLV '
               'tree encoding (sizes computed without truncation, canonical header choice, exact-tiling decoder). The property is a universally quantified input/output relation of '
               'pure codec functions whose interesting behaviour is concentrated at a few arithmetic boundaries (tag 0x1f/0x20, length 255/256, content 65535/65536, buffer need-1/need); '
               'a complete enumeration around all of them, of all 2^16 header prefixes and of every chunking of short streams decides it within the bound.',
    level_note='Trusted: the reference model in harness/ref/ref_tlvtree.c, gcc sanitizers, the simulated socket layer. Trees beyond depth 3 / 3 children, payload lengths other than the '
               'listed boundary values, and tags outside 0..0x1fff are not covered.',
    require_outcomes=['a:memRead:ok', 'a:memRead:reject-short-payload', 'a:memRead:reject-incomplete-header', 'a:parseBlob:ok', 'a:parseBlob:reject-trailing',
                      'a:expand:ok', 'a:expand:reject-untiled', 'a:elemParse:ok', 'a:elemParse:reject',
                      'b1:hdr:two-byte', 'b1:hdr:four-byte', 'b1:tree:oversize-root', 'b2a:ser:refused-short-buffer', 'b2b:tree:oversize-root', 'b2b:tree:fits',
                      'b3:tree:oversize-inner', 'b3:tree:oversize-root', 'b3:tree:fits', 'b4:parseback:elem', 'b5:parseback:ftlv', 'b5:clone:ok', 'b6:tree:oversize-inner',
                      'c:parseBlob:reject-short-payload', 'c:parseBlob:reject-incomplete-header', 'c:parseBlob:reject-trailing', 'c:expand:reject-untiled', 'c:memReadN:ok',
                      'e:edit:applied', 'f:edit:applied', 'e:edit:refused-absent-or-ambiguous', 'd:stream:socket:ok', 'd:stream:socket:reject', 'd:stream:file:ok', 'd:stream:file:reject', 'd:stream:cookie:ok'],
    assumptions=['the reference TLV tree model (harness/ref/ref_tlvtree.c) is a faithful transcription of the KSI TLV encoding rules',
                 'an output buffer of exactly the needed size is adequate (a serializer may refuse only smaller buffers or trees that do not fit)',
                 'KSI_FTLV_memRead / memReadN are prefix readers (one element from a possibly longer buffer); KSI_TLV_parseBlob and KSI_TlvElement_parse take the whole input as one element'],
    deadline=dict(quick=600, thorough=2400),
)
