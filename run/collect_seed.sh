#!/bin/bash
# collect_seed.sh <property id> [offset]: copies /tmp/seed_<id>/seed_out/{1,2} into /verif/seeded/<id>_<n>/ with a meta.json skeleton
set -e
id=$1
off=${2:-0}
for n in 1 2 3; do
  src=/tmp/seed_$id/seed_out/$n
  [ -d "$src" ] || continue
  dst=/verif/seeded/${id}_$((n+off))
  if [ -e "$dst" ]; then echo "$dst exists - pass an offset as second argument"; exit 1; fi
  mkdir -p $dst
  cp $src/patch.diff $dst/patch.diff
  [ -f $src/demo.c ] && cp $src/demo.c $dst/demo.c
  [ -f $src/README.txt ] && cp $src/README.txt $dst/README.txt
  python3 - "$id" "$dst" <<'PY'
import json,sys,os
pid,dst=sys.argv[1],sys.argv[2]
readme=open(os.path.join(dst,'README.txt')).read() if os.path.exists(os.path.join(dst,'README.txt')) else ''
meta=dict(property=pid, checks=[pid], origin='fresh sub-agent given only the property text and a scratch worktree', needs=readme[:1500], ran='see audit.json (written by run/seed_audit.py)')
json.dump(meta,open(os.path.join(dst,'meta.json'),'w'),indent=1)
PY
done
ls /verif/seeded | grep "^${id}_" || true
