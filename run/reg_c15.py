"""C15 registry entry."""
PID = 'C15'
SPEC = dict(
    driver='c15_ha',
    extra=['ref/ref.c', 'ref/ref_sig.c', 'ref/ref_pdu.c', 'simnet.c'],
    omit_objs=['net_tcp_async.o'],
    rule='placeholder',
    bounds=dict(quick='placeholder', thorough='placeholder'),
    technique='explicit-state search + exhaustive enumeration',
    level_text='placeholder',
    level_note='placeholder',
    require_outcomes=[],
    assumptions=[],
    deadline=dict(quick=900, thorough=2700),
)
