"""C15 registry entry."""
PID = 'C15'
SPEC = dict(
    driver='c15_ha',
    extra=['ref/ref.c', 'ref/ref_sig.c', 'ref/ref_pdu.c', 'simnet.c'],
    omit_objs=['net_tcp_async.o'],
    # BFS cases of part (a) with 3 endpoints x 2 requests replay up to ~10^4 histories: allow more than the default 120 s per case
    args=['--case-limit', '1500'],
    # a smaller quarantine (default 256 MB) avoids touching fresh pages for the many 64 KiB blocks of the SDK; other options as in check.py
    env=dict(ASAN_OPTIONS='detect_leaks=0:abort_on_error=0:allocator_may_return_null=1:handle_abort=1:symbolize=1:detect_stack_use_after_return=0:malloc_context_size=12:quarantine_size_mb=16'),
    rule='Part (a), completion: one case = (number of endpoints 1..3, number of user requests 1..2, one outcome per endpoint out of {valid reply, error status reply, error PDU, '
         'never answers, connect refused, request cache of size 1 occupied by a filler request}); inside a case a breadth-first explicit-state search over event histories on the real '
         'signing HA service (distinct simulated TCP hosts ha0..ha2.test): add user request, run, endpoint i answers its oldest unanswered request with its outcome, clock jump beyond all '
         'timeouts. Events that commute between two run() calls (answers of different endpoints, additions, clock jumps) are generated in one canonical order only. A state is the history '
         'reaching it, rebuilt on a fresh context; states are de-duplicated by a canonical key over every sub-service (request cache slots with state / error / id / timer ages / outstanding-response '
         'counter of the HA request, counters, TCP connection and queues read through the private structs), the HA response queue, the user handles, the undelivered bytes of every connection and '
         'the shadow model. After every event the shadow model (written from the statement) is compared with what run() handed back, and from EVERY distinct state a drain phase (quiet network, '
         'clock advancing 2 s per round, at most 40 rounds) checks that every accepted request comes back exactly once. states = distinct canonical states, transitions = events executed on the '
         'implementation, traces = histories replayed. '
         'Part (b), configuration consolidation: one case = a multiset of <= 3 (configuration, endpoint) pairs; inside, EVERY order of the pairs x {push-config callback, PUSH_CONFIG_RECEIVED handles, '
         'handles with all pushes arriving before the first run (distinct endpoints only), handles on a service set up with setEndpoint, the context-level callback, the callback with an application-side '
         'consolidation callback (KSI_ASYNC_OPT_CONF_CONSOLIDATE_CALLBACK: called once per push with the pushing endpoint and exactly the values it pushed), the callback on a service that was re-pointed with KSI_AsyncService_setEndpoint after consolidating dominating values from its former endpoint} on the signing (max level, aggregation period, max requests) and extending (max requests, calendar first / last time) HA '
         'service; single-field value alphabets {absent, 0, far below, min-1, min, mid1 < mid2, max, max+1, far above} (duplicates removed), cross-field alphabet {absent, in-range a < b, out-of-range} per field, '
         'extender configurations self-consistent (first <= last). Oracle: field-wise reference fold over the in-range values after every push, and equality of the final result over all orders. '
         'Endpoint outcome X: a valid reply with the connection closed right after it (other requests waiting on that connection fail). '
         'Part (c): a configuration request through 2 and 3 endpoints, every assignment of {configuration, error PDU, never answers} and every order of answering: run() never fails, a configuration is handed to the caller if any endpoint delivered one, the request fails only when every endpoint failed, never more error notices than failed endpoints.',
    bounds=dict(quick='(a) 1-2 endpoints x 1-2 requests and 3 endpoints x 1 request, all 6^n outcome assignments (300 cases); clock jumps per history unbounded for 1 endpoint and 2 endpoints x 1 request, '
                      'at most 1 otherwise; search to the fixpoint (history length bound 40 never reached). (b) 2 endpoints: all single-field multisets of size <= 3 x all endpoint assignments '
                      '(6 field/service pairs), all cross-field multisets of size 2 over the 64 (62 self-consistent extender) configurations',
                thorough='(a) additionally 3 endpoints x 2 requests (216 assignments; 1 clock jump per history when at least one endpoint never answers, none when all three answer - timeouts are then '
                         'exercised by the drain from every state only); unbounded clock jumps elsewhere. (b) 3 endpoints; cross-field multisets of size 3 over the reduced alphabet {absent, in-range, out-of-range}^3 '
                         'with canonical endpoint numbering'),
    technique='explicit-state search (BFS with replay and canonical-state de-duplication) + exhaustive enumeration of configuration sequences on the real HA service under a harness-owned network and clock; '
              'shadow model / reference fold as oracle',
    level_text='Every order and interleaving with run() of the per-endpoint outcomes is explored to the fixpoint of the reachable canonical state space for up to 3 endpoints and 2 requests, with every '
               'socket answer and the clock owned by the harness; the shadow model decides exactly-once completion, first-valid-wins (by arrival at the client), error-only-when-all-failed, explained notices and '
               'exact acceptance at submission, and a drain from every state shows that nothing is lost. The consolidation is compared with an independent fold for every multiset, order and '
               'endpoint assignment of boundary values. This is exhaustive exploration of the small regime where the protocol logic (counters per request, response queue) is fully exercised.',
    level_note='Trusted: reference PDU model and aggregator, simulated sockets, the canonical key (a field omitted there could only hide behaviours, never raise a false alarm). A reply that is consumed '
               'in a run in which its request could already have timed out is accepted either way. First-valid tolerance: a sub-service hands over one finished handle per run, so a reply may be overtaken '
               'by one round per other request on the same endpoint. HTTP transport is not used here (C07 covers it for single services).',
    require_outcomes=['req:first-valid-wins', 'req:valid-wins-over-errors', 'req:response:single-endpoint', 'req:all-failed:error', 'req:later-response-discarded', 'notice:error',
                      'add:forwarded-to-all', 'add:forwarded-to-some', 'add:refused-by-all', 'filler:*',
                      'conf:field:maxlevel:*', 'conf:field:aggrperiod:*', 'conf:field:maxrequests:*', 'conf:field:calfirst:*', 'conf:field:callast:*',
                      'conf:deliver:callback', 'conf:deliver:handle', 'conf:cross:aggr', 'conf:cross:ext'],
    assumptions=['the canonical key distinguishes all states with different futures',
                 'requests carry distinct hashes, so that the harness can match forwarded copies on the wire',
                 'the endpoint whose reply won is recognised by the aggregation time in the returned signature (each endpoint answers with its own time)'],
    deadline=dict(quick=900, thorough=3000),
)
