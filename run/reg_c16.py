"""C16 registry entry: tree builder part (c16_tree) and block-signer part (c16_blocksigner)."""
PID = 'C16'
SPEC = dict(
    drivers=[dict(driver='c16_tree', deadline=dict(quick=600, thorough=2400)),
             dict(driver='c16_blocksigner', extra=['ref/ref.c', 'ref/ref_sig.c', 'ref/ref_pdu.c', 'simnet.c'], deadline=dict(quick=300, thorough=900))],
    rule='Bounded-exhaustive enumeration of leaf sequences. A case is one leaf sequence (per leaf: level, hash or metadata) '
         'added to one KSI_TreeBuilder under one maximum-level setting (and hash algorithm), then closed. For every leaf the '
         'accept/refuse decision is compared with the reference forest (root level after adding <= maximum level / 255); after '
         'close the root is compared with the canonical merge of the accepted leaves and EVERY accepted leaf\'s extracted chain '
         'is recomputed with the independent chain formula against the builder\'s root hash and level; SDK live allocations must '
         'return to the baseline. Distinct = distinct case name (sequence + maximum level + algorithm); non-trivial = at least '
         'one accept/refuse comparison was made (always). '
         'Further (block signer): KSI_BlockSigner_close, every leaf signature requested twice, leaves of level 200..255 after two level-0 leaves (refused or accepted, the block still closes unless the root sits at level 255). '
         'Tree builder parts h (a metadata leaf too large to be hashed, offered after an odd number of leaves, followed by 0..3 leaves) and p (leaf processors: two sibling-adding processors on / off, a refusing processor first or last, every refused position of 1..5 leaves). '
         'Block signer with honest replies that carry no calendar chain / a calendar chain without aggregation time element. '
         'Block signer: signatures kept beyond the signer, its handles and the document hashes still verify for their own document only and serialize to the same bytes.',
    bounds=dict(
        quick='uniform: ALL leaf counts 1..64 at level 0 x max level {unset,1..8,255} and x 5 hash algorithms, counts 1..16 at levels {1,250} x max '
              '{unset,1,2,3,8,255,level+2,level+3}; mixed: ALL sequences of length <= 5 over leaf levels {0,1,2,5,253,254,255} x max level '
              '{unset,1,2,3,8,255}; metadata: ALL sequences of length <= 4 over levels {0,1,254,255} x every non-empty subset of metadata '
              'positions (max {3,255} too for length <= 3); failure by construction: carry overflow at merge depth 0..5 for every position of '
              'the tall leaf (fits / overflows) x max {unset,255} x trigger {hash,metadata} + one following leaf; leaf levels outside 0..255: '
              'all sequences length <= 3 over {0,255,-1,256,65536,-256}',
        thorough='as quick with mixed sequences of length <= 6, metadata: ALL sequences of length <= 5 over all 7 levels x every non-empty subset '
                 'of positions (max {3,255} too for length <= 4)'),
    technique='bounded-exhaustive enumeration of leaf sequences on the compiled code, compared with an independent canonical-forest model and the independent chain formula',
    level_text='Every element of the stated finite space of leaf sequences (see evidence.bounds) is executed on the real libksi object code '
               'under ASan/UBSan; the accept/refuse decision of every leaf, the root of every tree and the inclusion proof of every accepted '
               'leaf are compared with an independent reference (canonical binary-counter forest + KSI chain formula); nothing is sampled. '
               'This fits the property because it is a universally quantified statement over leaf sequences whose behaviour depends only on '
               'the binary-counter shape (covered for every count up to 64) and on level arithmetic around the boundaries 0/255/maximum level '
               '(covered by all mixtures of boundary levels, including every carry depth at which the overflow can occur).',
    level_note='Trusted: OpenSSL digest primitives, the reference arithmetic in harness/ref/ref.c and the forest model in c16_tree.c, gcc sanitizers. '
               'Block signer part (c16_blocksigner): all leaf counts 1..6 (thorough 1..9) x blinding masks on/off x metadata on none / every / every second leaf x leaf level 0..1 (2), every leaf signature verified by the library (internal policy, leaf hash) AND re-parsed and re-evaluated by the reference, signed through the reference aggregator behind the simulated transport; reset == new: the same block signed by a reset signer (after a first block of 0..3 leaves) must be byte-identical to the block signed by a new signer. Sequences longer than the bounds / other level values are not covered. Cases whose refusal happens in the middle of a carry run '
               'in a forked process of their own so that a sanitizer abort is reported as a violation of that case.',
    require_outcomes=['leaf:accepted', 'leaf:refused-maxlevel', 'leaf:refused-overflow-*', 'leaf:refused-badlevel', 'proof:ok',
                      'proof:ok-metadata-leaf', 'root:canonical', 'root:canonical-after-refusal', 'midcarry:*', 'mem:baseline', 'leaf:verified', 'reset:identical'],
    assumptions=['OpenSSL EVP digest primitives are correct (shared by the library and the reference)',
                 'the canonical shape is the binary-counter forest (perfect by leaf count; merged from the right at close) as stated by the property anchors and tree_builder.h',
                 'the metadata payload re-derived by the reference (padding to even length, client id, optional machine id / sequence nr / request time) is the TLV payload the statement means'],
    deadline=dict(quick=600, thorough=2400),
    # check.py's ASAN_OPTIONS plus a small quarantine: a case allocates < 100 KiB, and the default 256 MiB quarantine
    # makes the resident set (and with it every fork() of the own-process cases) several times more expensive
    env=dict(ASAN_OPTIONS='detect_leaks=0:abort_on_error=0:allocator_may_return_null=1:handle_abort=1:symbolize=1:'
                          'detect_stack_use_after_return=0:malloc_context_size=12:quarantine_size_mb=16'),
)
